"""C39 SFTP writes are never lost to the background download (OverwriteableFileConsumer)."""
META = {
    "level": 'exploration',
    "technique": 'reference-bytearray oracle on the real sftpd.OverwriteableFileConsumer: exhaustive pairs of overwrites x 2-chunk download splits x relative positions on a 12-byte file, plus seeded histories of <=20 client ops interleaved with random download chunks',
    "text": 'Executes the real OverwriteableFileConsumer (with a plain tempfile.TemporaryFile and with the real EncryptedTemporaryFile) as the SFTP file handle does: the harness plays the download producer (registerProducer/write/unregisterProducer/download_done) and the client (overwrite, set_current_size, read, when_done, close). Every read() result, get_current_size() and the temp-file contents at the moment the upload would read them (after when_done fired, and again after the last download chunk) are compared with a bytearray = original contents with the client ops applied in order. Thorough enumerates ALL ordered pairs of overwrites [a,b) within [0,14] on a 12-byte file x all 12 splits of the download into <=2 chunks x all 6 placements of the two overwrites before/between/after the chunks (complete); quick samples that space. A third family drives the real GeneralSFTPFile handle (opened read/write without FXF_TRUNC on a fake immutable node whose download is fed by hand; the close() upload is captured by a fake parent directory): writeChunk, readChunk, getAttrs and setAttrs(size=n) for n in {0, 1, size-1, size, size+1, beyond} before the first chunk, mid-download and after completion, with a write before/after and a second size change, plus seeded histories; readChunk results, the size reported by getAttrs and the bytes uploaded at close are compared with the same reference. Seeded histories add nested/adjacent/overlapping overwrites near the download frontier, truncation below/above the frontier, extension, writes beyond EOF, and reads straddling the frontier.',
    "note": 'Trusts the 20-line bytearray model and the virtual eventual-send queue (vf.env). Respects the class contract: no overwrite/set_current_size while a read Deferred is outstanding (the harness delivers download chunks until it fires); unwritten, not-yet-downloaded regions are only observed through read() (which waits) or after the download completed. Only successful downloads are modelled.',
}
LEVEL = "exploration"
BUDGET = {"quick": 38, "thorough": 240}
SHARDS = {"quick": 1, "thorough": 14}

import tempfile

from vf import env  # noqa  (must be the first project import)


# ----------------------------------------------------------------- model
class Ref(object):
    """Original contents with the client's writes and size changes applied in order."""

    def __init__(self, orig):
        self.b = bytearray(orig)
        self.writes = []      # effective client-written intervals [(start, end)], in order

    def overwrite(self, offset, data):
        start = min(offset, len(self.b))
        if offset > len(self.b):
            self.b.extend(b"\x00" * (offset - len(self.b)))
        self.b[offset:offset + len(data)] = data
        self.writes.append((start, offset + len(data)))

    def set_size(self, size):
        if size < len(self.b):
            del self.b[size:]
        elif size > len(self.b):
            self.writes.append((len(self.b), size))
            self.b.extend(b"\x00" * (size - len(self.b)))


def classify(orig, ref, actual, where, shrink_ranges=()):
    """Deterministic mechanism key for a content mismatch (actual vs ref.b).

    `shrink_ranges` = byte ranges [e1,e0) for which, when a download chunk was delivered,
    the consumer held two pending-overwrite records (s0,e0) <= (s1,e1) with s1 <= e0 and
    e1 < e0, i.e. the merge loop would have to keep the *larger* end.  (Read from the
    private heap for labelling only; the verdict itself is the byte comparison.)"""
    exp = bytes(ref.b)
    if len(actual) != len(exp):
        return where + "-length-differs"
    clobbered = [p for p in range(len(exp))
                 if actual[p] != exp[p] and p < len(orig) and actual[p] == orig[p]]
    if clobbered:
        ranges = list(shrink_ranges)
        if not ranges:
            ws = ref.writes
            ranges = [(e1, e0) for i, (s0, e0) in enumerate(ws) for j, (s1, e1) in enumerate(ws)
                      if i != j and (s0, e0) <= (s1, e1) and s1 <= e0 and e1 < e0]
        if any(lo <= p < hi for p in clobbered for (lo, hi) in ranges):
            return "nested-overwrite-merge-shrinks"
        return "download-clobbers-client-write"
    return where + "-differs-from-reference"


class Producer(object):
    def __init__(self):
        self.resumed = 0
        self.stopped = 0

    def resumeProducing(self):
        self.resumed += 1

    def pauseProducing(self):
        pass

    def stopProducing(self):
        self.stopped += 1


# ----------------------------------------------------------------- driver
class Driver(object):
    """Runs one history against a fresh consumer.  Steps:
       ("chunk", n) deliver the next n download bytes      ("ow", off, data)
       ("size", n)  set_current_size                        ("read", off, length)
       ("pump",)    run one eventual-send turn              ("done?",) call when_done()
    """

    def __init__(self, ck, sftpd, maker, orig):
        self.ck = ck
        self.orig = bytes(orig)
        self.ref = Ref(orig)
        self.c = sftpd.OverwriteableFileConsumer(len(orig), maker)
        self.sent = 0
        self.finished = False
        self.pending_reads = []   # [state dict]
        self.problems = []        # [(key, what)]
        self.done_results = []
        self.trace = []
        self.shrink_ranges = set()
        self.producer = Producer()
        self.c.registerProducer(self.producer, True)
        if self.producer.resumed != 1:
            self.problems.append(("streaming-producer-not-resumed-once",
                                  "registerProducer(streaming=True) called resumeProducing %d times"
                                  % self.producer.resumed))

    # -- download side
    def chunk(self, n):
        n = min(n, len(self.orig) - self.sent)
        if n <= 0:
            return
        self.trace.append(["chunk", self.sent, self.sent + n])
        self.note_shrinkable(self.sent + n)
        self.c.write(self.orig[self.sent:self.sent + n])
        self.sent += n
        if self.sent >= len(self.orig):
            self.finish_download()

    def note_shrinkable(self, next_downloaded):
        """Labelling aid only: which pending-overwrite records overlap with a smaller end."""
        heap = sorted(getattr(self.c, "overwrites", ()))
        for i, (s0, e0) in enumerate(heap):
            for (s1, e1) in heap[i + 1:]:
                if s1 > e0:
                    break
                if e1 < e0:
                    self.shrink_ranges.add((e1, e0))
                    self.ck.hit("merge-must-keep-larger-end")

    def finish_download(self):
        if self.finished:
            return
        self.finished = True
        self.trace.append(["download-finished"])
        self.c.unregisterProducer()
        self.c.download_done(b"download finished")

    def pump(self, turns=1):
        for _ in range(turns):
            if not env.evq.pending():
                break
            env.evq._turn()

    def settle_reads(self):
        """The contract forbids client modifications while a read is outstanding:
        deliver the download until every outstanding read has fired."""
        self.pump(4)
        guard = 0
        while any(not r["fired"] for r in self.pending_reads):
            if self.sent < len(self.orig):
                self.ck.hit("read-waited-for-download")
                self.chunk(max(1, (len(self.orig) - self.sent + 1) // 2))
            elif not self.finished:
                self.finish_download()
            else:
                guard += 1
            self.pump(4)
            if guard > 3:
                for r in self.pending_reads:
                    if not r["fired"]:
                        r["fired"] = True
                        self.problems.append(("read-never-fires",
                                              "read(%d,%d) still pending after the download completed"
                                              % (r["off"], r["len"])))
                break
        self.pending_reads = []

    # -- client side
    def overwrite(self, off, data):
        self.settle_reads()
        self.trace.append(["overwrite", off, off + len(data)])
        self.c.overwrite(off, data)
        self.ref.overwrite(off, data)
        self.check_size()

    def set_size(self, n):
        self.settle_reads()
        self.trace.append(["set_current_size", n])
        self.c.set_current_size(n)
        self.ref.set_size(n)
        self.check_size()

    def check_size(self):
        self.ck.mon("current-size-oracle")
        got = self.c.get_current_size()
        if got != len(self.ref.b):
            self.problems.append(("current-size-wrong", "get_current_size()=%r, reference %d"
                                  % (got, len(self.ref.b))))

    def read(self, off, length):
        self.trace.append(["read", off, length])
        st = {"off": off, "len": length, "fired": False,
              "eof": off >= len(self.ref.b),
              "exp": bytes(self.ref.b[off:off + length]),
              "snap": None, "shrink": None}
        # snapshot of the model for classification
        snap = Ref(b"")
        snap.b = bytearray(self.ref.b)
        snap.writes = list(self.ref.writes)
        st["snap"] = snap
        st["shrink"] = self.shrink_ranges     # shared set: ranges noted until the read fires
        d = self.c.read(off, length)

        def _ok(data, st=st):
            st["fired"] = True
            self.ck.mon("read-oracle")
            if st["eof"]:
                self.problems.append(("read-past-eof-returns-data",
                                      "read(%d,%d) at EOF returned %d bytes" % (st["off"], st["len"], len(data))))
            elif data != st["exp"]:
                if len(data) != len(st["exp"]):
                    key = "read-length-differs"
                else:
                    view = bytearray(st["snap"].b)
                    view[st["off"]:st["off"] + len(data)] = data
                    key = classify(self.orig, st["snap"], bytes(view), "read", st["shrink"])
                self.problems.append((key, "read(%d,%d) returned %r, reference %r"
                                      % (st["off"], st["len"], data[:40], st["exp"][:40])))

        def _err(f, st=st):
            st["fired"] = True
            self.ck.mon("read-oracle")
            if st["eof"] and f.check(EOFError):
                self.ck.hit("read-eof")
                return
            self.problems.append(("read-fails", "read(%d,%d) failed with %s although the download succeeded"
                                  % (st["off"], st["len"], f.type.__name__)))
        d.addCallbacks(_ok, _err)
        if not st["fired"]:
            self.ck.hit("read-deferred-pending")
        self.pending_reads.append(st)

    def when_done(self):
        d = self.c.when_done()
        d.addBoth(self.done_results.append)

    def compare_file(self, where):
        self.ck.mon("final-contents-oracle")
        f = self.c.get_file()
        f.seek(0)
        actual = f.read()
        if actual != bytes(self.ref.b):
            key = classify(self.orig, self.ref, actual, where, self.shrink_ranges)
            self.problems.append((key, "%s: temp file holds %r, reference %r (original %r)"
                                  % (where, actual[:40], bytes(self.ref.b)[:40], self.orig[:40])))

    def finish(self):
        """Client has no more ops: SFTP close waits for when_done, uploads the temp file."""
        from twisted.python.failure import Failure
        self.when_done()
        self.settle_reads()
        self.pump(6)
        early = False
        if self.done_results and not self.finished:
            # consumer declared itself done before the producer finished: the upload
            # would read the file now
            early = True
            self.ck.hit("done-before-last-chunk")
            self.compare_file("upload-time")
        while self.sent < len(self.orig):
            self.chunk(max(1, (len(self.orig) - self.sent + 1) // 2))
        self.finish_download()
        self.pump(6)
        if not self.done_results:
            self.problems.append(("when-done-never-fires", "when_done() did not fire after the download completed"))
        elif any(isinstance(r, Failure) for r in self.done_results):
            self.problems.append(("when-done-fails", "when_done() fired with %r" % (self.done_results[0],)))
        # a whole-file read through the API, then the bytes the upload would read
        self.read(0, len(self.ref.b) + 3)
        self.pump(6)
        self.settle_reads()
        self.compare_file("upload-time-late" if early else "upload-time")
        status = self.c.close()
        if isinstance(status, Failure):
            self.problems.append(("close-reports-failure", "close() returned %r" % (status,)))
        self.pump(6)
        return self.problems


def run_history(ck, sftpd, maker, orig, steps):
    with ck.watchdog(120, "history"):
        return run_history_(ck, sftpd, maker, orig, steps)
    return None, []                        # watchdog fired: inconclusive, nothing judged


def run_history_(ck, sftpd, maker, orig, steps):
    env.evq.reset()
    drv = Driver(ck, sftpd, maker, orig)
    try:
        for st in steps:
            op = st[0]
            if op == "chunk":
                drv.chunk(st[1])
            elif op == "ow":
                drv.overwrite(st[1], st[2])
            elif op == "size":
                drv.set_size(st[1])
            elif op == "read":
                drv.read(st[1], st[2])
            elif op == "pump":
                drv.pump(1)
            elif op == "done?":
                drv.when_done()
        problems = drv.finish()
    except Exception as e:  # the real code raised where the contract was respected
        import traceback
        tb = traceback.extract_tb(e.__traceback__)
        names = [fr.name for fr in tb]
        where = "%s:%s" % (tb[-1].name, type(e).__name__)
        key = "consumer-raises"
        if isinstance(e, TypeError) and "Deferred" in str(e) and \
                ("when_reached_or_failed" in names or "_update_downloaded" in names or "download_done" in names):
            # two outstanding reads with the same `needed` offset: heapq compares the Deferreds
            key = "concurrent-reads-same-milestone-typeerror"
        problems = drv.problems + [(key, "unexpected %s in %s: %s" % (type(e).__name__, where, e))]
        try:
            drv.c.close()
        except Exception:
            pass
    if env.evq.exceptions:
        problems = problems + [("exception-in-eventual-callback", repr(env.evq.exceptions[:2]))]
        env.evq.reset()
    return drv, problems


# ----------------------------------------------------------------- generators
ORIG12 = b"abcdefghijkl"


def enum_cases(limit):
    """All ordered pairs of overwrites within [0,limit] x splits x placements."""
    ivs = [(a, b) for a in range(limit + 1) for b in range(a + 1, limit + 1)]
    n = len(ORIG12)
    for w1 in ivs:
        for w2 in ivs:
            for split in range(1, n + 1):          # split==n: one single chunk
                for p1 in range(3):
                    for p2 in range(p1, 3):
                        yield w1, w2, split, p1, p2


def enum_steps(w1, w2, split, p1, p2):
    n = len(ORIG12)
    chunks = [split] if split >= n else [split, n - split]
    steps = []
    ows = [(p1, ("ow", w1[0], b"A" * (w1[1] - w1[0]))), (p2, ("ow", w2[0], b"B" * (w2[1] - w2[0])))]
    for pos in range(3):
        for p, s in ows:
            if p == pos:
                steps.append(s)
        if pos < len(chunks):
            steps.append(("chunk", chunks[pos]))
    return steps


def gen_history(rng):
    """Seeded history: <=20 client ops interleaved with download chunks."""
    n = rng.choice([0, 1, 2, 12, 12, 16, 17, 31, 32, 33, 40, 64, 100, 100, 257, 1000, 4096, 70000])
    orig = bytes((i * 7 + 3) % 251 + 1 for i in range(min(n, 300)))
    if n > 300:
        orig = (orig * (n // 300 + 1))[:n]
    nops = rng.randint(1, 20)
    steps = []
    size = n            # model of current size
    sent = 0            # download frontier as delivered by the harness
    dl = n              # effective download size (clipped by truncations)
    writes = []
    lo = max(1, n // 8)

    def near(x, spread=3):
        return max(0, x + rng.randint(-spread, spread))

    def pick_offset():
        c = rng.random()
        if c < .25:
            return near(min(sent, size))
        if c < .45 and writes:
            s, e = rng.choice(writes)
            return near(rng.choice([s, e, (s + e) // 2]), 2)
        if c < .55:
            return near(size, 2)
        if c < .62:
            return size + rng.randint(1, 20)     # beyond EOF: hole must read as zeroes
        return rng.randint(0, max(0, size))

    ops_left = nops
    while ops_left > 0:
        r = rng.random()
        if r < .30 and sent < n:
            k = rng.choice([1, 1, 2, 3, lo, lo, rng.randint(1, max(1, n)), n])
            steps.append(("chunk", k))
            sent = min(n, sent + k)
            continue
        if r < .38:
            steps.append(("pump",))
            continue
        if r < .40:
            steps.append(("done?",))
            continue
        ops_left -= 1
        r = rng.random()
        if r < .55:
            off = pick_offset()
            c = rng.random()
            if c < .3 and writes:
                # nested inside / adjacent to / straddling an earlier write
                s, e = rng.choice(writes)
                kind = rng.choice(["nested", "adjacent-after", "adjacent-before", "straddle-end", "cover"])
                if kind == "nested" and e - s >= 2:
                    off = rng.randint(s, e - 1)
                    ln = rng.randint(1, max(1, e - off - 1))
                elif kind == "adjacent-after":
                    off, ln = e, rng.randint(1, 8)
                elif kind == "adjacent-before":
                    ln = rng.randint(1, max(1, min(8, s)))
                    off = max(0, s - ln)
                elif kind == "straddle-end":
                    off = max(s, e - rng.randint(1, 3))
                    ln = rng.randint(1, 8)
                else:
                    off = max(0, s - rng.randint(0, 2))
                    ln = (e - off) + rng.randint(0, 3)
            else:
                ln = rng.choice([1, 1, 2, 3, 5, 8, 16, rng.randint(1, max(1, min(n, 5000)))])
            ln = max(1, min(ln, 6000))
            data = bytes([0x80 + (len(writes) % 100)]) * ln
            steps.append(("ow", off, data))
            writes.append((min(off, size), off + ln))
            size = max(size, off + ln)
        elif r < .72:
            c = rng.random()
            if c < .3:
                new = near(min(sent, dl))                # around the frontier
            elif c < .5:
                new = rng.randint(0, max(0, size))       # truncate
            elif c < .75:
                new = size + rng.randint(1, 40)          # extend
            elif c < .85:
                new = size
            else:
                new = near(size, 4)
            steps.append(("size", new))
            if new > size:
                writes.append((size, new))
            size = new
            dl = min(dl, new)
        else:
            c = rng.random()
            if c < .5:
                off = max(0, min(sent, size) - rng.randint(0, 6))   # straddle the frontier
                ln = rng.randint(1, 12) + rng.choice([0, 0, lo])
            elif c < .6:
                off, ln = 0, size + 5
            elif c < .7:
                off, ln = size + rng.randint(0, 3), rng.randint(0, 5)   # at / past EOF
            else:
                off = rng.randint(0, max(0, size))
                ln = rng.randint(0, 30)
            steps.append(("read", off, ln))
    return orig, steps


def show_steps(steps):
    out = []
    for s in steps:
        if s[0] == "ow":
            out.append(["overwrite", s[1], s[1] + len(s[2])])
        else:
            out.append(list(s))
    return out


# ----------------------------------------------------------------- the SFTP file handle (GeneralSFTPFile)
def make_handle_driver(sftpd):
    """Driver for the real GeneralSFTPFile on a fake immutable file node whose download is fed by hand and a
    fake parent directory that records what the close() uploads."""
    from zope.interface import implementer
    from twisted.internet import defer
    from twisted.python.failure import Failure
    from twisted.conch.ssh.filetransfer import FXF_READ, FXF_WRITE, SFTPError, FX_EOF
    from allmydata.interfaces import IFileNode

    class FakeVersion(object):
        def __init__(self, node):
            self.node = node

        def get_size(self):
            return len(self.node.contents)

        def read(self, consumer, offset=0, size=None):
            self.node.consumer = consumer
            self.node.read_d = defer.Deferred()
            return self.node.read_d

    @implementer(IFileNode)
    class FakeFileNode(object):
        def __init__(self, contents):
            self.contents = contents
            self.consumer = None
            self.read_d = None
            self.pos = 0

        def is_mutable(self):
            return False

        def is_readonly(self):
            return True

        def is_unknown(self):
            return False

        def get_size(self):
            return len(self.contents)

        def get_write_uri(self):
            return None

        def get_best_readable_version(self):
            return defer.succeed(FakeVersion(self))

        def feed(self, n):
            chunk = self.contents[self.pos:self.pos + n]
            self.pos += len(chunk)
            if chunk:
                self.consumer.write(chunk)
            if self.pos >= len(self.contents) and not self.read_d.called:
                self.read_d.callback(self.consumer)

    class FakeParent(object):
        def __init__(self):
            self.uploaded = {}

        def get_write_uri(self):
            return b"URI:DIR2:fake"

        def add_file(self, childname, uploadable, metadata=None):
            d = uploadable.get_size()
            d.addCallback(lambda size: uploadable.read(size))

            def _got(chunks):
                self.uploaded[childname] = b"".join(chunks)
            d.addCallback(_got)
            return d

    class HandleDriver(object):
        """Steps: ("chunk", n) ("ow", off, data)->writeChunk ("size", n)->setAttrs({'size': n})
        ("read", off, len)->readChunk ("attrs",)->getAttrs ("pump",)"""

        def __init__(self, ck, orig):
            self.ck = ck
            self.orig = bytes(orig)
            self.ref = Ref(orig)
            self.node = FakeFileNode(self.orig)
            self.parent = FakeParent()
            self.problems = []
            self.trace = []
            self.pending = []
            self.wrote = False
            self.fh = sftpd.GeneralSFTPFile(b"/f", FXF_READ | FXF_WRITE, None, b"c" * 16)
            self.fh.open(parent=self.parent, childname=u"f", filenode=self.node, metadata={})
            self.pump()
            if self.node.consumer is None:
                raise RuntimeError("download was not started by open()")
            if not self.orig:
                self.node.feed(0)
                self.pump()

        def pump(self, turns=8):
            for _ in range(turns):
                if not env.evq.pending():
                    break
                env.evq._turn()

        def downloaded_all(self):
            return self.node.pos >= len(self.orig)

        def chunk(self, n):
            if self.downloaded_all() or n <= 0:
                return
            self.trace.append(["chunk", self.node.pos, min(len(self.orig), self.node.pos + n)])
            self.node.feed(n)
            self.pump()

        def settle(self):
            self.pump()
            guard = 0
            while any(not r["fired"] for r in self.pending):
                if not self.downloaded_all():
                    self.ck.hit("handle-read-waited-for-download")
                    self.chunk(max(1, (len(self.orig) - self.node.pos + 1) // 2))
                else:
                    guard += 1
                self.pump()
                if guard > 3:
                    for r in self.pending:
                        if not r["fired"]:
                            r["fired"] = True
                            self.problems.append(("handle-request-never-answered",
                                                  "%s still unanswered after the download completed" % (r["what"],)))
                    break
            self.pending = []

        def write(self, off, data):
            self.settle()
            self.trace.append(["writeChunk", off, off + len(data)])
            box = []
            self.fh.writeChunk(off, data).addBoth(box.append)
            self.wrote = True
            self.ref.overwrite(off, data)
            self.pump()
            if not box or isinstance(box[0], Failure):
                self.problems.append(("handle-write-refused", "writeChunk(%d, %d bytes) -> %r" % (off, len(data), box)))

        def set_size(self, n):
            self.settle()
            self.trace.append(["setAttrs", {"size": n}])
            st = {"fired": False, "what": "setAttrs(size=%d)" % n}

            def _done(res, st=st):
                st["fired"] = True
                if isinstance(res, Failure):
                    self.problems.append(("handle-setattrs-refused", "setAttrs({'size': %d}) failed: %s" % (n, res.value)))
            self.fh.setAttrs({"size": n}).addBoth(_done)
            self.ref.set_size(n)
            self.pending.append(st)
            self.settle()
            self.ck.hit("setattrs-size-through-handle")

        def attrs(self):
            expect = len(self.ref.b)
            self.trace.append(["getAttrs"])
            st = {"fired": False, "what": "getAttrs()"}

            def _done(res, st=st):
                st["fired"] = True
                self.ck.mon("handle-size-oracle")
                if isinstance(res, Failure):
                    self.problems.append(("handle-getattrs-fails", "getAttrs() failed: %s" % (res.value,)))
                elif res.get("size") != expect:
                    self.problems.append(("handle-size-differs-from-reference",
                                          "getAttrs() reports size %r, reference %d" % (res.get("size"), expect)))
            self.fh.getAttrs().addBoth(_done)
            self.pending.append(st)

        def read(self, off, length):
            self.trace.append(["readChunk", off, length])
            snap = Ref(b"")
            snap.b = bytearray(self.ref.b)
            snap.writes = list(self.ref.writes)
            exp = bytes(self.ref.b[off:off + length])
            eof = off >= len(self.ref.b)
            st = {"fired": False, "what": "readChunk(%d,%d)" % (off, length)}

            def _done(res, st=st):
                st["fired"] = True
                self.ck.mon("handle-read-oracle")
                if isinstance(res, Failure):
                    if eof and res.check(SFTPError) and res.value.code == FX_EOF:
                        return
                    self.problems.append(("handle-read-fails", "readChunk(%d,%d) failed: %s" % (off, length, res.value)))
                elif eof:
                    self.problems.append(("handle-read-past-eof-returns-data",
                                          "readChunk(%d,%d) at EOF returned %d bytes" % (off, length, len(res))))
                elif res != exp:
                    if len(res) != len(exp):
                        key = "handle-read-length-differs"
                    else:
                        view = bytearray(snap.b)
                        view[off:off + len(res)] = res
                        key = "handle-" + classify(self.orig, snap, bytes(view), "read")
                    self.problems.append((key, "readChunk(%d,%d) returned %d bytes %r, reference %d bytes %r"
                                          % (off, length, len(res), res[:24], len(exp), exp[:24])))
            self.fh.readChunk(off, length).addBoth(_done)
            self.pending.append(st)

        def finish(self):
            self.settle()
            self.attrs()
            self.read(0, len(self.ref.b) + 7)
            self.settle()
            self.trace.append(["close"])
            box = []
            self.fh.close().addBoth(box.append)
            self.pump()
            while not self.downloaded_all():
                self.chunk(max(1, (len(self.orig) - self.node.pos + 1) // 2))
            self.pump(20)
            if not box:
                self.problems.append(("handle-close-never-completes", "close() unanswered after the download completed"))
            elif isinstance(box[0], Failure):
                self.problems.append(("handle-close-fails", "close() failed: %s" % (box[0].value,)))
            else:
                up = self.parent.uploaded.get(u"f")
                if not self.wrote and bytes(self.ref.b) == self.orig:
                    # nothing changed: the handle need not upload anything
                    self.ck.skip("close-without-any-change")
                    if up is not None and up != self.orig:
                        self.problems.append(("handle-uploaded-differs-without-any-change", "uploaded %r" % (up[:24],)))
                else:
                    if not self.wrote:
                        self.ck.hit("size-change-without-write-committed-at-close")
                    self.ck.mon("uploaded-contents-oracle")
                    if up is None:
                        self.problems.append(("handle-nothing-uploaded", "close() succeeded, nothing was uploaded"))
                    elif up != bytes(self.ref.b):
                        key = "handle-" + classify(self.orig, self.ref, up, "uploaded")
                        self.problems.append((key, "uploaded %d bytes %r, reference %d bytes %r"
                                              % (len(up), up[:24], len(self.ref.b), bytes(self.ref.b)[:24])))
            return self.problems

    def run_handle_history(ck, orig, steps):
        env.evq.reset()
        drv = None
        try:
            drv = HandleDriver(ck, orig)
            for st in steps:
                op = st[0]
                if op == "chunk":
                    drv.chunk(st[1])
                elif op == "ow":
                    drv.write(st[1], st[2])
                elif op == "size":
                    drv.set_size(st[1])
                elif op == "read":
                    drv.read(st[1], st[2])
                elif op == "attrs":
                    drv.attrs()
                elif op == "pump":
                    drv.pump(1)
            problems = drv.finish()
        except Exception as e:
            import traceback
            tb = traceback.extract_tb(e.__traceback__)
            problems = (drv.problems if drv else []) + [("handle-raises", "unexpected %s in %s: %s"
                                                         % (type(e).__name__, tb[-1].name, e))]
        if env.evq.exceptions:
            problems = problems + [("exception-in-eventual-callback", repr(env.evq.exceptions[:2]))]
            env.evq.reset()
        return drv, problems

    return run_handle_history


def handle_enum():
    """Directed histories: size change to n in {0, 1, cur-1, cur, cur+1, beyond} at each phase of the download
    (before the first chunk / mid-download / after completion), a write before or after it, a second size change."""
    for n in (12, 300):
        orig = bytes((i * 11 + 5) % 251 + 1 for i in range(n))
        for phase, first in (("before-first-chunk", 0), ("mid-download", n // 3), ("after-completion", n)):
            for target in ("0", "1", "cur-1", "cur", "cur+1", "beyond"):
                new = {"0": 0, "1": 1, "cur-1": n - 1, "cur": n, "cur+1": n + 1, "beyond": n + 40}[target]
                for wpos in ("write-before", "write-after", "write-at-end"):
                    for second in (None, 0, "plus3"):
                        steps = []
                        if first:
                            steps.append(("chunk", first))
                        if wpos == "write-before":
                            steps.append(("ow", 2, b"FRESH"))
                        steps.append(("size", new))
                        cur = new if wpos != "write-before" else new      # write-before is cut by the size change
                        if wpos == "write-after":
                            steps.append(("ow", 0, b"fresh"))
                            cur = max(cur, 5)
                        steps.append(("attrs",))
                        steps.append(("chunk", max(1, n // 3)))
                        steps.append(("read", 0, 100))
                        if second is not None:
                            steps.append(("size", 0 if second == 0 else cur + 3))
                            steps.append(("attrs",))
                        if wpos == "write-at-end":
                            steps.append(("ow", 1, b"end"))
                        yield orig, steps, (n, phase, target, wpos, second)


def handle_from_history(steps, rng):
    out = []
    for s in steps:
        if s[0] == "done?":
            continue
        out.append(s)
        if s[0] in ("size", "ow") and rng.random() < .5:
            out.append(("attrs",))
    return out



# ----------------------------------------------------------------- run
def run(ck):
    from allmydata.frontends import sftpd
    from allmydata.util.fileutil import EncryptedTemporaryFile
    sftpd.noisy = False
    ck.rule = ("(1) every ordered pair of overwrites [a,b) within [0,14] on the 12-byte file 'abcdefghijkl' x "
               "12 splits of the download into <=2 chunks x 6 placements of the two overwrites before/between/after "
               "the chunks (thorough: all 793,800; quick: a seed-rotated 1/37 sample plus all 11,025 pairs placed before a "
               "single-chunk download); "
               "(2) seeded histories of 1..20 client ops (overwrite nested/adjacent/straddling earlier writes and the "
               "download frontier, beyond-EOF writes, truncate below/above the frontier, extend, reads straddling the "
               "frontier or past EOF) interleaved with download chunks of random sizes and eventual-queue turns, on "
               "files of 0..70000 bytes; both temp-file factories. distinct = distinct (factory, original, step list); "
               "non-trivial = at least one client write lands before the download reaches it")
    makers = [("plain", tempfile.TemporaryFile), ("encrypted", EncryptedTemporaryFile)]

    def judge(drv, problems, cls, key, steps, orig, makername, nontrivial):
        if drv is None:
            return
        for k, what in problems:
            ck.violation(k, what, {"factory": makername, "original": orig[:64], "original_len": len(orig),
                                   "steps": show_steps(steps)[:60], "executed": drv.trace[:80]})
        ck.case(cls, key=key, nontrivial=nontrivial,
                sample={"factory": makername, "original_len": len(orig), "steps": show_steps(steps)[:12]})

    # ---- (1) enumeration
    limit = 14
    total = 0
    complete = True
    stride = 37 if ck.tier == "quick" else 1
    for idx, (w1, w2, split, p1, p2) in enumerate(enum_cases(limit)):
        total += 1
        if not ck.mine(idx):
            continue
        if stride > 1 and (idx + ck.seed) % stride and not (split == 12 and p2 == 0):
            continue
        if not ck.more(min_cases=10 ** 9):     # fixed list: only 4x the budget stops it (loaded machine)
            complete = False
            break
        steps = enum_steps(w1, w2, split, p1, p2)
        mk = makers[(idx // 6) % 2] if stride > 1 else makers[0]
        drv, problems = run_history(ck, sftpd, mk[1], ORIG12, steps)
        if stride == 1 and idx % 4 == 0:
            drv2, problems2 = run_history(ck, sftpd, makers[1][1], ORIG12, steps)
            judge(drv2, problems2, "enum-pairs-encrypted", ("encrypted", w1, w2, split, p1, p2), steps, ORIG12,
                  "encrypted", True)
        before = (p1 == 0 or (p1 == 1 and w1[1] > split)) or (p2 == 0 or (p2 == 1 and w2[1] > split))
        if w1[0] <= w2[0] <= w1[1] and w2[1] < w1[1] and p2 < 2:
            ck.hit("nested-second-overwrite-pending")
        if w2[0] == w1[1] or w1[0] == w2[1]:
            ck.hit("adjacent-overwrites")
        judge(drv, problems, "enum-pairs", (mk[0], w1, w2, split, p1, p2), steps, ORIG12, mk[0], before)
    ck.extra["enumeration"] = {"space": total, "stride": stride, "complete_in_this_shard": bool(complete and stride == 1),
                               "bounds": {"file": 12, "overwrite_limit": limit, "chunks": 2, "placements": 6}}
    if ck.tier == "thorough":
        ck.exhaustive = bool(complete)

    # ---- (2) seeded histories
    rng = ck.rng("c39-histories")
    n = 18000 if ck.tier == "quick" else 60000      # fixed counts: deterministic per seed
    i = 0
    target = ck.evaluations + n
    while i < n and ck.more(min_cases=target):
        i += 1
        orig, steps = gen_history(rng)
        mk = makers[i % 2]
        drv, problems = run_history(ck, sftpd, mk[1], orig, steps)
        kinds = set(s[0] for s in steps)
        if "size" in kinds:
            ck.hit("set-current-size")
        judge(drv, problems, "history", (mk[0], orig[:16], len(orig), repr(show_steps(steps))), steps, orig, mk[0],
              bool(kinds & {"ow", "size"}) and "chunk" in kinds)
    # ---- (3) the real SFTP file handle: size changes through GeneralSFTPFile.setAttrs({'size': n})
    run_handle_history = make_handle_driver(sftpd)

    def judge_handle(drv, problems, cls, key, steps, orig):
        for k, what in problems:
            ck.violation(k, what, {"handle": "GeneralSFTPFile(FXF_READ|FXF_WRITE) on a %d-byte file" % len(orig),
                                   "original": orig[:32], "steps": show_steps(steps)[:60],
                                   "executed": (drv.trace[:80] if drv else None)})
        ck.case(cls, key=key, nontrivial=True, sample={"original_len": len(orig), "steps": show_steps(steps)[:12]})

    for hi, (orig, steps, key) in enumerate(handle_enum()):
        if not ck.mine(hi):
            continue
        if not ck.more(min_cases=10 ** 9):
            break
        with ck.watchdog(120, "handle history"):
            drv, problems = run_handle_history(ck, orig, steps)
            if key[2] == "0":
                ck.hit("handle-truncated-to-zero")
            judge_handle(drv, problems, "handle-directed", key, steps, orig)
    hrng = ck.rng("c39-handle")
    nh = 1200 if ck.tier == "quick" else 8000
    target = ck.evaluations + nh
    j = 0
    while j < nh and ck.more(min_cases=target):
        j += 1
        orig, steps = gen_history(hrng)
        if len(orig) > 5000:
            orig = orig[:5000]
        steps = handle_from_history(steps, hrng)
        with ck.watchdog(120, "handle history"):
            drv, problems = run_handle_history(ck, orig, steps)
            judge_handle(drv, problems, "handle-history", (orig[:16], len(orig), repr(show_steps(steps))), steps, orig)
    ck.extra["handle_histories"] = j
    ck.extra["histories"] = i
    if i < n:
        ck.observe("history-count-cut-by-time-budget")
    ck.require_monitor("read-oracle", "final-contents-oracle", "current-size-oracle",
                       "handle-read-oracle", "handle-size-oracle", "uploaded-contents-oracle")
    ck.require_reach("read-deferred-pending", "read-waited-for-download", "nested-second-overwrite-pending",
                     "set-current-size", "done-before-last-chunk", "setattrs-size-through-handle",
                     "handle-truncated-to-zero", "handle-read-waited-for-download")


# MUST_CATCH  (selftest/breaks_c39.py; run on a base = /repo/src + the two proposed fixes, quick tier)
#  unchanged tree: merge loop `end = end1`                      -> nested-overwrite-merge-shrinks            CAUGHT
#  unchanged tree: heap entries (offset, Deferred) compare       -> concurrent-reads-same-milestone-typeerror CAUGHT
#  c39-no-skip-of-overwritten-regions                            -> download-clobbers-client-write            CAUGHT
#  c39-truncate-keeps-download-size                              -> upload-time-length-differs                CAUGHT
#  c39-straddling-overwrite-not-recorded                         -> download-clobbers-client-write            CAUGHT
#  c39-read-does-not-wait                                        -> read-differs-from-reference               CAUGHT
#  c39-no-zero-fill-beyond-eof (EncryptedTemporaryFile only)     -> read-/upload-time-differs-from-reference  CAUGHT
#  c39-prefix-before-overwrite-dropped                           -> read-differs-from-reference               CAUGHT
#  c39-chunk-not-clipped-to-download-size                        -> upload-time-length-differs                CAUGHT
#  c39-milestone-jumps-over-gap                                  -> read-differs-from-reference               CAUGHT
#  no download_done("size changed") in set_current_size          -> MISSED: not observable under the class contract
#        (the file handle calls download_done itself when the download Deferred fires)
#  extension zeros not recorded as an overwrite                  -> MISSED: equivalent (always beyond download_size)
#  seeded/C39-6 (GeneralSFTPFile.setAttrs: `if size:` drops a truncation to exactly 0)  -> handle-size-differs-from-reference / handle read + uploaded contents differ (handle family)  CAUGHT
