"""C33 grid-manager certificates grant upload permission only when valid."""
META = {
    "level": "exploration",
    "technique": "runtime oracle on the real create_grid_manager_verifier(): seeded certificate mixes and time walks, judged by a by-construction predicate with an independent ed25519 decision",
    "text": "Executes the real allmydata.grid_manager (create_grid_manager_verifier, validate_grid_manager_certificate, _GridManager.sign, SignedCertificate.marshal/load) with real ed25519 keys on seeded mixes of certificates (valid, issued by the real sign(), other server, non-configured or self signer, expired, about to expire, every-byte-position tampering of certificate and signature, re-targeted / expiry-extended forgeries, swapped signatures, duplicates, container-level malformations) and calls the same verifier repeatedly while a virtual now_fn moves across the expiry instants. Oracle: permitted iff no keys configured or some certificate verifies (cryptography called directly) under a configured key, names the server and has integer-microsecond expiry > now. Also a broker-level workload: a real StorageFarmBroker with grid-manager keys receives announcements (_got_announcement / set_static_servers) whose grid-manager-certificates list holds one of 12 kinds of unparseable entry alone, before or after a certificate for another server / an expired one / a foreign-signed one / a valid one, and random longer lists; the server is connected through the tub callback and 'permitted' is read off get_servers_for_psi(for_upload=True) and upload_permitted() (an unregistered server counts as not permitted). Sampled; the single-byte tamper sweep is complete per base certificate.",
    "note": "Trusts the cryptography package's Ed25519 verify and the harness' integer-microsecond clock; at the instant now == expires the certificate counts as expired (judged); version != 1, lenient key spelling and manager-signed malformed certificates are counted as dont_care. A valid certificate announced next to an unparseable one: the tree drops the whole announcement (server not registered); counted as an observation, not judged (lead's decision pending).",
}
LEVEL = "exploration"
BUDGET = {"quick": 35, "thorough": 240}
SHARDS = {"quick": 1, "thorough": 8}

import io
import json
from datetime import datetime, timedelta, timezone

from vf import env  # noqa
from vf.checks._keys import Key, raw_verify, b32

EPOCH_DT = datetime(1970, 1, 1, tzinfo=timezone.utc)
T0 = 1_700_000_000 * 10 ** 6      # virtual "now" origin, microseconds


def dt_of(us, tz=timezone.utc):
    return (EPOCH_DT + timedelta(microseconds=us)).astimezone(tz)


class Cert(object):
    """A certificate as the harness built it, with by-construction labels."""
    __slots__ = ("kind", "cert", "sig", "subject", "expires_us", "version", "shape", "signer")

    def __init__(self, kind, cert, sig, subject, expires_us, version=1, shape="ok", signer=None):
        self.kind = kind
        self.cert = cert            # bytes
        self.sig = sig              # bytes
        self.subject = subject      # bytes the signed content names (pub-v0-...), by construction
        self.expires_us = expires_us
        self.version = version
        self.shape = shape          # "ok" | "lenient-subject" | "malformed"
        self.signer = signer

    def clone(self, kind, cert=None, sig=None):
        return Cert(kind, self.cert if cert is None else cert, self.sig if sig is None else sig,
                    self.subject, self.expires_us, self.version, self.shape, self.signer)


def cert_json(subject_s, expires_us, version=1, tz=timezone.utc, extra=None, drop=()):
    info = {"expires": dt_of(expires_us, tz).isoformat(),
            "public_key": subject_s.decode("ascii"),
            "version": version}
    if extra:
        info.update(extra)
    for k in drop:
        info.pop(k, None)
    return json.dumps(info, separators=(",", ":"), sort_keys=True).encode("utf-8")


def status(c, configured, target_s, now_us):
    """'good' | 'open' | 'bad' | 'poison' -- the statement's predicate for one certificate."""
    if not any(raw_verify(k.raw_pub, c.sig, c.cert) for k in configured):
        return "bad"
    if c.shape == "malformed":
        return "poison"          # a configured manager signed garbage: outside the statement
    names = c.subject == target_s
    if c.shape == "lenient-subject":
        names = None
    if names is False:
        return "bad"
    if c.expires_us <= now_us:
        return "bad"             # a certificate that expires at T has expired at T (lead's decision; code: expires > now)
    if names is None or c.version != 1:
        return "open"
    return "good"


def expected(certs, configured, target_s, now_us):
    """True / False / None (don't care) and the reason."""
    if not configured:
        return True, "no-keys"
    st = [status(c, configured, target_s, now_us) for c in certs]
    if "poison" in st:
        return None, "manager-signed-malformed"
    if "good" in st:
        return True, "good-cert"
    if "open" in st:
        return None, "open"
    return False, "no-good-cert"


def regions(cert):
    """Byte position classes of the canonical certificate JSON."""
    out = {}
    txt = cert.decode("utf-8")
    for key in ("expires", "public_key", "version"):
        i = txt.index('"%s"' % key)
        out["key:" + key] = range(i + 1, i + 1 + len(key))
        j = i + len(key) + 3
        if txt[j] == '"':
            e = txt.index('"', j + 1)
            out["val:" + key] = range(j + 1, e)
        else:
            e = j
            while txt[e] not in ",}":
                e += 1
            out["val:" + key] = range(j, e)
    out["punct"] = [i for i, ch in enumerate(txt) if ch in '{}:,"' and not any(
        i in r for n, r in out.items() if n.startswith("val:"))]
    return out


def run(ck):
    from allmydata import grid_manager as gm
    from allmydata.crypto import ed25519
    from allmydata.grid_manager import (SignedCertificate, create_grid_manager_verifier,
                                        validate_grid_manager_certificate, _GridManager)

    # every shard draws from its own ck.rng stream, so shards need no index partition
    ck.rule = ("case = (1-4 managers of which 0-3 configured, 2-4 servers, 0-7 certificates drawn from 20 classes, "
               "3-9 instants incl. expires-1us/expires/expires+1us) on one verifier; plus per-base-certificate sweeps "
               "tampering every certificate byte and every signature byte; distinct = (keys, cert bytes+sigs, instants); "
               "non-trivial = >=1 configured key and >=1 certificate")
    ck.assumptions.append("a certificate has expired at the instant now == expires (judged, to the microsecond)")
    ck.assumptions.append("certificates whose signed content a configured manager made malformed (missing/naive "
                          "expires, non-JSON) are outside the statement")
    rng = ck.rng("c33")
    tzs = [timezone.utc, timezone(timedelta(hours=2)), timezone(timedelta(hours=-7, minutes=-30))]

    real_now = gm.current_datetime_with_zone

    def real_sign(manager, subject, sign_now_us, delta_us):
        """Issue through the real _GridManager.sign under a virtual clock."""
        g = _GridManager(manager.priv_s, {})
        g.add_storage_server("srv", ed25519.verifying_key_from_string(subject.pub_s))
        gm.current_datetime_with_zone = lambda: dt_of(sign_now_us)
        try:
            sc = g.sign("srv", timedelta(microseconds=delta_us))
        finally:
            gm.current_datetime_with_zone = real_now
        ck.hit("real-sign")
        return Cert("real-sign", sc.certificate, sc.signature, subject.pub_s, sign_now_us + delta_us, signer=manager)

    def mk(kind, signer, subject_s, expires_us, **kw):
        shape = kw.pop("shape", "ok")
        version = kw.get("version", 1)
        body = kw.pop("body", None)
        cert = body if body is not None else cert_json(subject_s, expires_us, **kw)
        return Cert(kind, cert, signer.sign(cert), subject_s, expires_us, version, shape, signer)

    def tamper_byte(c, pos, kind):
        b = bytearray(c.cert)
        b[pos] ^= 1 << rng.randrange(8)
        return c.clone(kind, cert=bytes(b))

    def tamper_sig(c, pos, kind):
        s = bytearray(c.sig)
        s[pos] ^= 1 << rng.randrange(8)
        return c.clone(kind, sig=bytes(s))

    def evaluate(certs, configured, target, instants, cls, via_load=False):
        """Build one real verifier, call it at every instant, judge each call."""
        now_box = [instants[0]]
        keys = [ed25519.verifying_key_from_string(k.pub_s) for k in configured]
        objs = []
        for c in certs:
            sc = SignedCertificate(certificate=c.cert, signature=c.sig)
            if via_load:
                try:
                    txt = json.dumps({"certificate": c.cert.decode("utf-8"), "signature": b32(c.sig).decode("ascii")})
                    sc2 = SignedCertificate.load(io.StringIO(txt))
                    ck.mon("marshal-load-roundtrip")
                    if (sc2.certificate, sc2.signature) != (c.cert, c.sig):
                        ck.violation("signed-certificate-load-alters-bytes",
                                     "SignedCertificate.load returned different certificate/signature bytes",
                                     {"cert": c.cert, "sig": c.sig})
                    sc = sc2
                except UnicodeDecodeError:
                    pass
            objs.append(sc)
        bad_calls = []
        wit = {"configured": [k.pub_s for k in configured], "target": target.pub_s,
               "certs": [{"kind": c.kind, "certificate": c.cert.decode("utf-8", "backslashreplace"),
                          "signature_b32": b32(c.sig), "signed_by": getattr(c.signer, "label", None)} for c in certs]}
        poisoned = any(status(c, configured, target.pub_s, instants[0]) == "poison" for c in certs) if configured else False
        try:
            v = create_grid_manager_verifier(keys, objs, target.pub_s, now_fn=lambda: dt_of(now_box[0]),
                                             bad_cert=lambda k, c: bad_calls.append(1))
        except Exception as e:
            if poisoned:
                ck.skip("manager-signed-malformed-raises")
            else:
                exp, why = expected(certs, configured, target.pub_s, instants[0])
                if exp is True:
                    ck.violation("hostile-certificate-raises",
                                 "create_grid_manager_verifier raised %s although a good certificate is present"
                                 % type(e).__name__, dict(wit, error=repr(e)))
                else:
                    ck.observe("verifier-construction-raises-without-good-cert")
            ck.case(cls, key=(tuple(k.pub_s for k in configured), tuple((c.cert, c.sig) for c in certs), tuple(instants)))
            return
        if bad_calls:
            ck.hit("bad-signature-rejected")
        results = []
        for now_us in instants:
            now_box[0] = now_us
            exp, why = expected(certs, configured, target.pub_s, now_us)
            try:
                got = v()
            except Exception as e:
                got = e
            results.append(got)
            if exp is None:
                ck.skip(why if why != "open" else "version-or-key-spelling")
                continue
            ck.mon("permission-predicate")
            if isinstance(got, Exception):
                if exp is True:
                    ck.violation("verifier-raises-despite-good-certificate",
                                 "verifier raised %s: %s although a good certificate is present" % (type(got).__name__, got),
                                 dict(wit, now_us=now_us))
                else:
                    ck.observe("verifier-raises-without-good-cert")    # raising grants nothing
            elif bool(got) != exp or not isinstance(got, bool):
                if exp is False:
                    kinds = sorted(set(c.kind.split("@")[0] for c in certs))
                    key = "permits-without-good-certificate"
                    what = "verifier returned %r with no valid, unexpired certificate for this server (cert kinds %s)" % (got, kinds)
                else:
                    key = "denies-despite-good-certificate"
                    what = "verifier returned %r although a certificate is signed by a configured key, names the server and is unexpired" % (got,)
                ck.violation(key, what, dict(wit, now_us=now_us, now=dt_of(now_us).isoformat(),
                                             status=[status(c, configured, target.pub_s, now_us) for c in certs]))
            if exp is True and why == "good-cert":
                ck.hit("granted")
            elif exp is False:
                ck.hit("denied")
                if any(c.expires_us == now_us for c in certs):
                    ck.hit("denied-at-expiry-instant")
        # history reach: the same verifier flipped from permitted to denied as time advanced
        flat = [r for r in results if isinstance(r, bool)]
        if True in flat and False in flat[flat.index(True):]:
            ck.hit("expired-during-history")
        ck.case(cls, key=(tuple(k.pub_s for k in configured), tuple((c.cert, c.sig) for c in certs), tuple(instants)),
                nontrivial=bool(configured) and bool(certs),
                sample={"configured_keys": len(configured), "certs": [c.kind for c in certs],
                        "instants_rel_s": [(t - T0) / 1e6 for t in instants],
                        "results": [r if isinstance(r, bool) else repr(r) for r in results]})

    # ------------------------------------------------------------ 0. validate_grid_manager_certificate directly
    def direct_validate(c, key):
        ok = raw_verify(key.raw_pub, c.sig, c.cert)
        try:
            got = validate_grid_manager_certificate(ed25519.verifying_key_from_string(key.pub_s),
                                                    SignedCertificate(certificate=c.cert, signature=c.sig))
        except Exception as e:
            if ok:
                ck.violation("validate-certificate-raises-on-valid",
                             "validate_grid_manager_certificate raised %s on a correctly signed certificate"
                             % type(e).__name__, {"certificate": c.cert, "signature": c.sig, "key": key.pub_s})
            else:
                ck.observe("validate-raises-on-bad-signature")   # raising validates nothing
            return
        ck.mon("signature-check")
        if (got is not None) != ok:
            ck.violation("validate-certificate-signature-mismatch",
                         "validate_grid_manager_certificate returned %r, independent ed25519 verify says %r" % (got, ok),
                         {"kind": c.kind, "certificate": c.cert, "signature": c.sig, "key": key.pub_s})

    ncases = 3000 if ck.tier == "quick" else 12000
    nsweeps = 4 if ck.tier == "quick" else 12

    # ------------------------------------------------------------ 1. tamper sweeps (complete per base certificate)
    for s in range(nsweeps):
        m = Key(rng, "M0"); other_m = Key(rng, "Mx"); target = Key(rng, "S0"); other = Key(rng, "S1")
        exp_us = T0 + rng.randrange(1, 10 ** 9)
        if s % 2 == 0:
            base = real_sign(m, target, T0, exp_us - T0)
        else:
            base = mk("valid", m, target.pub_s, exp_us, tz=rng.choice(tzs))
        if ck.out_of_time():
            break
        configured = [m] if s % 3 else [other_m, m]
        now = [T0 + rng.randrange(0, exp_us - T0)]
        evaluate([base], configured, target, now + [exp_us - 1, exp_us, exp_us + 1], "sweep-control")
        reg = regions(base.cert)
        for pos in range(len(base.cert)):
            name = next((n for n, r in reg.items() if pos in r), "other")
            ck.hit("tamper:" + name)
            t = tamper_byte(base, pos, "tamper-cert@" + name)
            direct_validate(t, m)
            evaluate([t], configured, target, now, "sweep-cert-byte")
        for pos in range(len(base.sig)):
            ck.hit("tamper:sig-" + ("R" if pos < 32 else "S"))
            t = tamper_sig(base, pos, "tamper-sig@" + ("R" if pos < 32 else "S"))
            direct_validate(t, m)
            evaluate([t], configured, target, now, "sweep-sig-byte")
        # directed forgeries
        oth = mk("other-server", m, other.pub_s, exp_us)
        retarget = oth.clone("forged-retarget", cert=oth.cert.replace(other.pub_s, target.pub_s))
        retarget.subject = target.pub_s
        old = mk("expired", m, target.pub_s, T0 - 10 ** 6)
        extend = old.clone("forged-extend-expiry", cert=cert_json(target.pub_s, exp_us))
        extend.expires_us = exp_us
        for f in (retarget, extend, base.clone("sig-truncated", sig=base.sig[:63]),
                  base.clone("sig-extended", sig=base.sig + b"\0"), base.clone("sig-empty", sig=b""),
                  base.clone("sig-zero", sig=bytes(64)), base.clone("sig-swapped", sig=oth.sig),
                  oth.clone("cert-swapped", cert=base.cert)):
            ck.hit("forgery:" + f.kind)
            direct_validate(f, m)
            evaluate([f], configured, target, now, "directed-forgery")
            evaluate([f, oth, old], configured, target, now, "directed-forgery")
        direct_validate(base, m)
        direct_validate(base, other_m)

    # ------------------------------------------------------------ 2. random certificate mixes with time walks
    for i in range(ncases):
        if ck.out_of_time():
            break
        managers = [Key(rng, "M%d" % j) for j in range(rng.randint(1, 4))]
        servers = [Key(rng, "S%d" % j) for j in range(rng.randint(2, 4))]
        ncfg = rng.choice([0, 1, 1, 1, 2, 2, 3])
        configured = managers[:min(ncfg, len(managers))]
        unconfigured = managers[len(configured):] or [Key(rng, "Mu")]
        target, others = servers[0], servers[1:]
        signer = lambda: rng.choice(configured) if configured else rng.choice(unconfigured)  # noqa: E731
        horizon = rng.choice([10, 3600 * 10 ** 6, 400 * 86400 * 10 ** 6])
        certs = []
        for _ in range(rng.choice([0, 1, 1, 2, 2, 3, 4, 5, 7])):
            k = rng.choice(["valid", "valid", "real-sign", "soon", "soon", "expired", "expired-long", "other-server",
                            "unconfigured-signer", "self-signed", "tamper-cert", "tamper-sig", "retarget", "extend",
                            "far-future", "version", "lenient-subject", "malformed", "duplicate", "tz"])
            soon = T0 + rng.randrange(1, horizon)
            if k == "valid":
                c = mk(k, signer(), target.pub_s, T0 + horizon + rng.randrange(1, 10 ** 12))
            elif k == "real-sign":
                c = real_sign(signer(), target, T0 - rng.randrange(0, 10 ** 9), rng.randrange(1, 10 ** 9) + horizon)
            elif k == "soon":
                c = mk(k, signer(), target.pub_s, soon)
            elif k == "tz":
                c = mk(k, signer(), target.pub_s, soon, tz=rng.choice(tzs[1:]))
            elif k == "expired":
                c = mk(k, signer(), target.pub_s, T0 - rng.choice([0, 1, 10 ** 6, 86400 * 10 ** 6]))
            elif k == "expired-long":
                c = mk(k, signer(), target.pub_s, T0 - 40 * 365 * 86400 * 10 ** 6)
            elif k == "far-future":
                c = mk(k, signer(), target.pub_s, 253402300799 * 10 ** 6)      # 9999-12-31T23:59:59
            elif k == "other-server":
                c = mk(k, signer(), rng.choice(others).pub_s, T0 + horizon + 10 ** 9)
            elif k == "unconfigured-signer":
                c = mk(k, rng.choice(unconfigured), target.pub_s, T0 + horizon + 10 ** 9)
            elif k == "self-signed":
                c = mk(k, target, target.pub_s, T0 + horizon + 10 ** 9)
            elif k == "tamper-cert":
                b = mk("valid", signer(), target.pub_s, T0 + horizon + 10 ** 9)
                reg = regions(b.cert)
                name = rng.choice(sorted(reg))
                c = tamper_byte(b, rng.choice(list(reg[name])), "tamper-cert@" + name)
            elif k == "tamper-sig":
                b = mk("valid", signer(), target.pub_s, T0 + horizon + 10 ** 9)
                c = tamper_sig(b, rng.randrange(64), "tamper-sig")
            elif k == "retarget":
                o = rng.choice(others)
                b = mk("other-server", signer(), o.pub_s, T0 + horizon + 10 ** 9)
                c = b.clone("forged-retarget", cert=b.cert.replace(o.pub_s, target.pub_s))
                c.subject = target.pub_s
            elif k == "extend":
                b = mk("expired", signer(), target.pub_s, T0 - 1)
                c = b.clone("forged-extend-expiry", cert=cert_json(target.pub_s, T0 + horizon + 10 ** 9))
                c.expires_us = T0 + horizon + 10 ** 9
            elif k == "version":
                c = mk("version-not-1", signer(), target.pub_s, rng.choice([soon, T0 + horizon + 10 ** 9, T0 - 1]),
                       version=rng.choice([0, 2, "1", None, 1.5]))
            elif k == "lenient-subject":
                c = mk(k, signer(), target.pub_s.upper().replace(b"PUB-V0-", b"pub-v0-"), T0 + horizon + 10 ** 9,
                       shape="lenient-subject")
            elif k == "malformed":
                body = rng.choice([b"not json", b"[]", cert_json(target.pub_s, soon, drop=("expires",)),
                                   cert_json(target.pub_s, soon, drop=("public_key",)),
                                   cert_json(target.pub_s, soon).replace(b"+00:00", b"")])
                c = mk("manager-signed-malformed", signer(), target.pub_s, soon, shape="malformed", body=body)
            elif k == "duplicate" and certs:
                c = rng.choice(certs)
                c = c.clone(c.kind)
            else:
                c = mk("valid", signer(), target.pub_s, soon)
            certs.append(c)
            ck.hit("class:" + c.kind.split("@")[0])
        rng.shuffle(certs)
        # instants: around every expiry that falls inside the walk, plus random ones; ascending (time advances)
        pts = set()
        for c in certs:
            if T0 - 10 <= c.expires_us <= T0 + horizon + 10:
                pts.update((c.expires_us - 1, c.expires_us, c.expires_us + 1))
        pts = set(rng.sample(sorted(pts), min(len(pts), 6)))
        for _ in range(rng.randint(2, 4)):
            pts.add(T0 + rng.randrange(0, horizon + 1))
        pts.add(T0)
        instants = sorted(pts)
        if rng.random() < .15:
            instants.append(instants[0])       # the clock stepping back must not matter either
        evaluate(certs, configured, target, instants, "mix", via_load=rng.random() < .3)

    # ------------------------------------------------------------ 3. container-level malformations (SignedCertificate.load)
    m = Key(rng, "M0"); target = Key(rng, "S0")
    base = mk("valid", m, target.pub_s, T0 + 10 ** 9)
    good_sig = b32(base.sig).decode("ascii")
    good_cert = base.cert.decode("utf-8")
    variants = [
        ("sig-uppercase", {"certificate": good_cert, "signature": good_sig.upper()}),
        ("sig-padded", {"certificate": good_cert, "signature": good_sig + "======"}),
        ("sig-bad-chars", {"certificate": good_cert, "signature": "!" * len(good_sig)}),
        ("sig-truncated-b32", {"certificate": good_cert, "signature": good_sig[:-1]}),
        ("sig-one-char-changed", {"certificate": good_cert, "signature": ("b" if good_sig[0] == "a" else "a") + good_sig[1:]}),
        ("sig-empty", {"certificate": good_cert, "signature": ""}),
        ("sig-non-ascii", {"certificate": good_cert, "signature": good_sig[:-1] + "é"}),
        ("sig-not-a-string", {"certificate": good_cert, "signature": 7}),
        ("cert-not-a-string", {"certificate": 7, "signature": good_sig}),
        ("cert-missing", {"signature": good_sig}),
        ("cert-whitespace-added", {"certificate": good_cert + " ", "signature": good_sig}),
        ("cert-reordered-keys", {"certificate": json.dumps(json.loads(good_cert), sort_keys=False, indent=1), "signature": good_sig}),
        ("not-a-dict", [good_cert, good_sig]),
    ]
    for name, doc in variants:
        if ck.out_of_time():
            break
        ck.hit("container:" + name)
        try:
            sc = SignedCertificate.load(io.StringIO(json.dumps(doc)))
        except Exception:
            ck.observe("container-load-raises")   # raising grants nothing
            ck.case("container", key=name, sample={"variant": name, "outcome": "load raises"})
            continue
        if not isinstance(sc.certificate, bytes) or not isinstance(sc.signature, bytes):
            ck.observe("container-load-non-bytes")
            continue
        c = base.clone("container:" + name, cert=sc.certificate, sig=sc.signature)
        evaluate([c], [m], target, [T0, T0 + 10 ** 9 - 1, T0 + 10 ** 9 + 1], "container")


    # ------------------------------------------------------------ 4. broker level: announcements with unparseable certificates
    # A real StorageFarmBroker with grid-manager keys receives the announcement through the introducer-client entry
    # point (_got_announcement) or the static-server one; the server is then connected through the callback the (fake)
    # tub was given.  "Permitted" is read off get_servers_for_psi(for_upload=True) / IServer.upload_permitted(); a
    # server the broker did not register counts as not permitted.
    import contextlib
    from twisted.application import service
    from twisted.internet import defer
    from allmydata.storage_client import StorageFarmBroker, StorageClientConfig
    from allmydata.node import config_from_string
    from allmydata.client import _valid_config

    class FakeTub(service.MultiService):
        def __init__(self, registry):
            service.MultiService.__init__(self)
            self.registry = registry
        def connectTo(self, furl, cb):
            self.registry.append(cb)
            class R(object):
                def reset(self): pass
                def stopConnecting(self): pass
                def getReconnectionInfo(self): return None
            return R()

    class FakeRref(object):
        def callRemote(self, name, *a, **kw):
            return defer.succeed({b"http://allmydata.org/tahoe/protocols/storage/v1": {b"maximum-immutable-share-size": 2 ** 32},
                                  b"application-version": b"fake"})
        def notifyOnDisconnect(self, cb, *a, **kw): pass
        def getDataLastReceivedAt(self): return None

    def entry_of(c):
        return {"certificate": c.cert.decode("utf-8"), "signature": b32(c.sig).decode("ascii")}

    def garble(kind, c):
        """-> (announcement entry that cannot be parsed into a SignedCertificate, lenient)"""
        e = entry_of(c)
        sig = e["signature"]
        if kind == "sig-non-base32-char":
            e["signature"] = sig[:17] + rng.choice("!1089=_ ") + sig[18:]
        elif kind == "sig-uppercase":
            e["signature"] = sig.upper()
        elif kind == "sig-truncated-impossible-length":
            e["signature"] = sig[:-2]               # 101 chars: no byte string encodes to that length
        elif kind == "sig-padded":
            e["signature"] = sig + "======"
        elif kind == "sig-non-ascii":
            e["signature"] = sig[:-1] + "\u00e9"
        elif kind == "sig-noncanonical-tail":
            e["signature"] = sig[:-1] + ("b" if sig[-1] != "b" else "c")
        elif kind == "signature-missing":
            del e["signature"]
        elif kind == "certificate-missing":
            del e["certificate"]
        elif kind == "signature-not-a-string":
            e["signature"] = rng.choice([7, None, [sig], {"sig": sig}])
        elif kind == "certificate-not-a-string":
            e["certificate"] = rng.choice([7, None, [e["certificate"]], json.loads(e["certificate"])])
        elif kind == "entry-not-a-dict":
            e = rng.choice([sig, [e["certificate"], sig], 7, None])
        elif kind == "entry-empty-dict":
            e = {}
        return e, kind in ("sig-uppercase", "sig-padded")
    GARBLES = ["sig-non-base32-char", "sig-uppercase", "sig-truncated-impossible-length", "sig-padded", "sig-non-ascii",
               "sig-noncanonical-tail", "signature-missing", "certificate-missing", "signature-not-a-string",
               "certificate-not-a-string", "entry-not-a-dict", "entry-empty-dict"]

    def broker_case(entries, parsed, lenient_valid, configured, target, instants, path, label, garbled_kinds):
        """entries: the announced list; parsed: the Cert objects among them that are well-formed (for the oracle)"""
        now_box = [instants[0]]
        gm.current_datetime_with_zone = lambda: dt_of(now_box[0])
        chatter = io.StringIO()
        registry = []
        raised = None
        try:
            with contextlib.redirect_stdout(chatter):
                cfg = config_from_string("/nonexistent-vf", "tub.port", "[client]\nforce_foolscap = true\n", _valid_config())
                sb = StorageFarmBroker(True, lambda overrides: FakeTub(registry), cfg, StorageClientConfig(
                    grid_manager_keys=[ed25519.verifying_key_from_string(k.pub_s) for k in configured]))
                furl = "pb://62ubehyunnyhzs7r6vdonnm2hpi52w6y@tcp:127.0.0.1:1/swiss"
                ann = {"anonymous-storage-FURL": furl, "nickname": "srv", "grid-manager-certificates": entries}
                try:
                    if path == "announce":
                        sb._got_announcement(target.v0, dict(ann, **{"service-name": "storage"}))
                    else:
                        sb.set_static_servers({target.v0.decode("ascii"): {"ann": ann}})
                except Exception as e:
                    raised = e
                    ck.hit("broker-announcement-raises")
                registered = [x for x in sb.get_known_servers() if x.get_serverid() == target.v0]
                if registered and registry:
                    registry[-1](FakeRref())          # the tub reports the connection
                    while env.evq.pending():
                        env.evq._turn()
                psi = b"\x01" * 16
                for now_us in instants:
                    now_box[0] = now_us
                    exp, why = expected(parsed, configured, target.pub_s, now_us)
                    in_all = target.v0 in [x.get_serverid() for x in sb.get_servers_for_psi(psi)]
                    try:
                        in_upload = target.v0 in [x.get_serverid() for x in sb.get_servers_for_psi(psi, for_upload=True)]
                        api = registered[0].upload_permitted() if registered else False
                    except Exception as e:
                        in_upload, api = False, False
                        ck.observe("broker-upload-selection-raises")
                    wit = {"configured": [k.pub_s for k in configured], "server": target.v0, "path": path, "now_us": now_us,
                           "grid-manager-certificates": entries, "garbled": garbled_kinds,
                           "parsed_status": [status(c, configured, target.pub_s, now_us) for c in parsed],
                           "registered": bool(registered), "raised": repr(raised) if raised else None}
                    if registered and bool(api) != in_upload and in_all:
                        ck.violation("broker-upload-list-disagrees-with-upload_permitted",
                                     "get_servers_for_psi(for_upload=True) membership %r != upload_permitted() %r" % (in_upload, api), wit)
                    if exp is None or (lenient_valid and exp is not True):
                        ck.skip("broker:" + (why if exp is None else "leniently-spelled-valid-certificate"))
                        continue
                    ck.mon("broker-permission-predicate")
                    if exp is False:
                        ck.hit("broker-denied")
                        if garbled_kinds:
                            ck.hit("broker-denied-with-unparseable-certificate")
                        if in_upload or api:
                            key = ("permits-server-with-unparseable-certificate" if garbled_kinds
                                   else "broker-permits-without-good-certificate")
                            ck.violation(key, "with grid-manager keys configured the broker offers a server for uploads although no "
                                         "announced certificate is signed by a configured key, names it and is unexpired"
                                         + (" (unparseable entries: %s)" % garbled_kinds if garbled_kinds else ""), wit)
                    else:
                        if in_upload and api:
                            ck.hit("broker-granted")
                        elif garbled_kinds and not registered:
                            ck.violation("server-with-valid-certificate-dropped-because-of-unparseable-sibling",
                                         "a server announcing a valid, unexpired certificate for itself next to an unparseable "
                                         "one (%s) is never registered, so it is not permitted for uploads" % (garbled_kinds,),
                                         wit)
                        else:
                            ck.violation("broker-denies-despite-good-certificate",
                                         "broker does not offer a connected server for uploads although it announced a valid, "
                                         "unexpired certificate for itself", wit)
        finally:
            gm.current_datetime_with_zone = real_now
            for dc in list(env.reactor.getDelayedCalls()):
                if dc.active():
                    dc.cancel()
        ck.case("broker", key=(label, path, tuple(instants), repr(entries), tuple(k.pub_s for k in configured)),
                nontrivial=bool(garbled_kinds),
                sample={"layout": label, "path": path, "garbled": garbled_kinds, "registered": bool(registered),
                        "raised": type(raised).__name__ if raised else None})

    nrounds = 1 if ck.tier == "quick" else 4
    for rnd in range(nrounds):
        m = Key(rng, "M0"); m2 = Key(rng, "M1"); target = Key(rng, "S0"); other = Key(rng, "S1")
        far = T0 + 10 ** 12
        companions = {
            "alone": None,
            "other-server": lambda: mk("other-server", m, other.pub_s, far),
            "expired": lambda: mk("expired", m, target.pub_s, T0 - 10 ** 6),
            "foreign-signer": lambda: mk("unconfigured-signer", Key(rng, "Mx"), target.pub_s, far),
            "valid-for-this-server": lambda: mk("valid", m, target.pub_s, far),
        }
        for gk in GARBLES:
            for comp_name in sorted(companions):
                for pos in ("before", "after"):
                    if ck.out_of_time():
                        break
                    if comp_name == "alone" and pos == "after":
                        continue
                    # what gets garbled: a certificate that would otherwise have been good, or somebody else's
                    base_c = mk("valid", rng.choice([m, m2]), target.pub_s, far) if rng.random() < .7 else \
                        mk("other-server", m, other.pub_s, far)
                    g, lenient = garble(gk, base_c)
                    comp = companions[comp_name]() if companions[comp_name] else None
                    entries = [g] if comp is None else ([g, entry_of(comp)] if pos == "before" else [entry_of(comp), g])
                    parsed = [comp] if comp is not None else []
                    ck.hit("broker-garble:" + gk)
                    ck.hit("broker-layout:%s-%s" % (comp_name, pos if comp else "only"))
                    broker_case(entries, parsed, lenient and base_c.subject == target.pub_s, [m, m2] if rnd % 2 else [m], target,
                                [T0 + 1, far + 1], rng.choice(["announce", "announce", "static"]),
                                "%s/%s/%s" % (gk, comp_name, pos), [gk])
        # controls without any unparseable entry, and random longer lists
        for i in range(60 if ck.tier == "quick" else 200):
            if ck.out_of_time():
                break
            soon = T0 + 2 * rng.randrange(1, 10 ** 6)
            pool = [lambda: mk("valid", m, target.pub_s, far), lambda: mk("soon", m, target.pub_s, soon),
                    lambda: mk("expired", m, target.pub_s, T0 - 1), lambda: mk("other-server", m, other.pub_s, far),
                    lambda: mk("unconfigured-signer", Key(rng, "Mx"), target.pub_s, far),
                    lambda: tamper_sig(mk("valid", m, target.pub_s, far), rng.randrange(64), "tamper-sig"),
                    lambda: (lambda c: c.clone("tamper-cert", cert=c.cert.replace(b'"version":1', b'"version":2')))(
                        mk("valid", m, target.pub_s, far))]
            parsed, entries, gks = [], [], []
            for _ in range(rng.randint(0, 4)):
                c = rng.choice(pool)()
                if rng.random() < .25:
                    gk = rng.choice(GARBLES)
                    g, lenient = garble(gk, c)
                    if lenient:
                        continue
                    entries.append(g); gks.append(gk)
                else:
                    entries.append(entry_of(c)); parsed.append(c)
            broker_case(entries, parsed, False, [m], target, sorted({T0 + 1, soon - 1, soon, soon + 1, far + 1}),
                        rng.choice(["announce", "static"]), "random", gks)

    # ------------------------------------------------------------ 5. broker level: re-announcements changing the certificate list
    def reannounce_case(steps, configured, target, label):
        """steps: [(list of Cert, dict of other announcement fields, instants)]; one broker, one server announcing repeatedly.
        After every announcement the permission must follow the LATEST announcement's certificates."""
        now_box = [steps[0][2][0]]
        gm.current_datetime_with_zone = lambda: dt_of(now_box[0])
        chatter = io.StringIO()
        registry = []
        connected_cbs = 0
        outcomes = []
        try:
            with contextlib.redirect_stdout(chatter):
                cfg = config_from_string("/nonexistent-vf", "tub.port", "[client]\nforce_foolscap = true\n", _valid_config())
                sb = StorageFarmBroker(True, lambda overrides: FakeTub(registry), cfg, StorageClientConfig(
                    grid_manager_keys=[ed25519.verifying_key_from_string(k.pub_s) for k in configured]))
                psi = b"\x02" * 16
                for stepno, (certs, fields, instants) in enumerate(steps):
                    ann = {"service-name": "storage", "nickname": "srv",
                           "anonymous-storage-FURL": "pb://62ubehyunnyhzs7r6vdonnm2hpi52w6y@tcp:127.0.0.1:1/swiss"}
                    ann.update(fields)
                    if certs is not None:
                        ann["grid-manager-certificates"] = [entry_of(c) for c in certs]
                    now_box[0] = instants[0]
                    sb._got_announcement(target.v0, ann)
                    if len(registry) > connected_cbs:
                        connected_cbs = len(registry)
                        registry[-1](FakeRref())              # a replaced server object gets its connection
                        while env.evq.pending():
                            env.evq._turn()
                    ck.hit("reannounce-step" if stepno else "first-announcement")
                    for now_us in instants:
                        now_box[0] = now_us
                        exp, why = expected(certs or [], configured, target.pub_s, now_us)
                        srv = [x for x in sb.get_known_servers() if x.get_serverid() == target.v0]
                        in_upload = target.v0 in [x.get_serverid() for x in sb.get_servers_for_psi(psi, for_upload=True)]
                        in_all = target.v0 in [x.get_serverid() for x in sb.get_servers_for_psi(psi)]
                        api = srv[0].upload_permitted() if srv else False
                        outcomes.append((stepno, exp, in_upload))
                        if exp is None:
                            ck.skip("broker:" + why)
                            continue
                        ck.mon("reannouncement-permission-predicate")
                        if not in_all:
                            ck.observe("reannounced-server-not-connected")
                            continue
                        if bool(in_upload) != exp or bool(api) != exp:
                            prev = [c.kind for c in (steps[stepno - 1][0] or [])] if stepno else None
                            ck.violation("permission-not-updated-on-reannouncement" if stepno else
                                         ("broker-permits-without-good-certificate" if in_upload else "broker-denies-despite-good-certificate"),
                                         "after the server's latest announcement (certificates %s; previous %s) the broker %s it for "
                                         "uploads; the latest announcement's certificates say %s"
                                         % ([c.kind for c in (certs or [])], prev, "offers" if in_upload else "refuses",
                                            "permitted" if exp else "not permitted"),
                                         {"configured": [k.pub_s for k in configured], "server": target.v0, "step": stepno, "now_us": now_us,
                                          "history": [{"certs": [c.kind for c in (cs or [])], "fields": f} for cs, f, _ in steps[:stepno + 1]],
                                          "latest-certificates": [entry_of(c) for c in (certs or [])]})
                        elif stepno:
                            ck.hit("reannouncement-permission-" + ("granted" if exp else "withdrawn"))
        finally:
            gm.current_datetime_with_zone = real_now
            for dc in list(env.reactor.getDelayedCalls()):
                if dc.active():
                    dc.cancel()
        ck.case("broker-reannounce", key=(label, repr([(None if cs is None else [(c.cert, c.sig) for c in cs], sorted(f.items()), i)
                                                         for cs, f, i in steps])),
                nontrivial=len(steps) > 1, sample={"history": label, "outcomes": outcomes[:8]})

    for rnd in range(2 if ck.tier == "quick" else 8):
        m = Key(rng, "M0"); target = Key(rng, "S0"); other = Key(rng, "S1")
        far = T0 + 10 ** 12
        makers = {
            "valid": lambda: [mk("valid", m, target.pub_s, far + 2 * rng.randrange(1, 1000))],
            "none": lambda: [],
            "absent": lambda: None,                                   # no grid-manager-certificates key at all
            "other-server": lambda: [mk("other-server", m, other.pub_s, far)],
            "tampered": lambda: [tamper_sig(mk("valid", m, target.pub_s, far), rng.randrange(64), "tamper-sig")],
            "foreign-signer": lambda: [mk("unconfigured-signer", Key(rng, "Mx"), target.pub_s, far)],
            "expired": lambda: [mk("expired", m, target.pub_s, T0 - 2 * rng.randrange(1, 10 ** 6))],
            "valid+other": lambda: [mk("other-server", m, other.pub_s, far), mk("valid", m, target.pub_s, far)],
        }
        other_changes = {
            "certs-only": lambda i: {},
            "nickname": lambda i: {"nickname": "srv-renamed-%d" % i},
            "version": lambda i: {"my-version": "tahoe/%d" % i},
            "furl": lambda i: {"anonymous-storage-FURL": "pb://62ubehyunnyhzs7r6vdonnm2hpi52w6y@tcp:127.0.0.1:%d/swiss" % (2 + i)},
            "seed": lambda i: {"permutation-seed-base32": b32(bytes([i + 1]) * 20).decode("ascii")},
        }
        names = sorted(makers)
        for a in names:
            for b in names:
                if a == b and a != "valid":
                    continue
                for ch in sorted(other_changes):
                    if ck.out_of_time():
                        break
                    if ch != "certs-only" and rng.random() < .5:
                        continue
                    steps = [(makers[a](), {}, [T0 + 1]), (makers[b](), other_changes[ch](1), [T0 + 3, T0 + 5])]
                    if rng.random() < .3:
                        c = rng.choice(names)
                        steps.append((makers[c](), other_changes[rng.choice(sorted(other_changes))](2), [T0 + 7]))
                    ck.hit("reannounce:%s->%s" % (a, b))
                    ck.hit("reannounce-with:" + ch)
                    reannounce_case(steps, [m], target, "%s->%s/%s" % (a, b, ch))

    ck.require_monitor("permission-predicate", "signature-check", "broker-permission-predicate",
                       "reannouncement-permission-predicate")
    ck.require_reach("reannouncement-permission-granted", "reannouncement-permission-withdrawn",
                     "reannounce:valid->none", "reannounce:valid->other-server", "reannounce:valid->tampered",
                     "reannounce:valid->expired", "reannounce:expired->valid", "reannounce:valid->absent",
                     "reannounce-with:certs-only", "reannounce-with:nickname")
    ck.require_reach("broker-granted", "broker-denied", "broker-denied-with-unparseable-certificate",
                     *["broker-garble:" + g for g in GARBLES])
    ck.require_reach("granted", "denied", "denied-at-expiry-instant", "expired-during-history", "bad-signature-rejected", "real-sign",
                     "tamper:val:expires", "tamper:val:public_key", "tamper:val:version", "tamper:sig-R", "tamper:sig-S",
                     "forgery:forged-retarget", "forgery:forged-extend-expiry")
    ck.exhaustive = False


# MUST_CATCH -- planted in grid_manager.py of a scratch copy (VF_REPO=/var/tmp/auth_st/... ./check C33), removed afterwards.
#   `if expires > now:` -> `if expires < now:` (inverted) ....................... caught: denies-despite-good-certificate, permits-without-good-certificate
#   `if expires > now:` -> `if True:` (expiry never checked) .................... caught: permits-without-good-certificate
#   `if pc == public_key:` -> `if True:` (subject comparison dropped) ........... caught: permits-without-good-certificate
#   validate_grid_manager_certificate ignores BadSignature ...................... caught: validate-certificate-signature-mismatch,
#                                                                                        permits-without-good-certificate, hostile-certificate-raises
#   `for key in keys:` -> `for key in keys[:1]:` (only first manager key) ....... caught: denies-despite-good-certificate
#   no keys -> `lambda: False` .................................................. caught: denies-despite-good-certificate
#   validate() returns at the first certificate naming the server (even expired)  caught: denies-despite-good-certificate
#   seeded C33-3 (unparseable certificate => verifier None => permitted) ........ caught: permits-server-with-unparseable-certificate
#   storage_client.py: NativeStorageServer.upload_permitted always True; verifier built with [] keys; verifier bound to
#   another identity ........................................................... caught: broker-permits-without-good-certificate /
#                                                                                        broker-denies-despite-good-certificate
#   (list in selftest/breaks_c33.py: 11/11 caught; seeded C33-1..4: 4/4 caught)
#   `expires > now` -> `now > expires: continue` (seeded C33-1: still valid at now == expires)  caught: permits-without-good-certificate

# Round 3: seeded C33-5 (re-announcement with only the certificate list changed keeps the old verifier) and
#   selftest c33-broker-reannouncement-ignored-when-only-certificates-differ ... caught: permission-not-updated-on-reannouncement
#   (section 5: two/three-announcement histories, permission judged against the LATEST announcement)
