"""C28 storage space reservations are honoured (simulated disk, reserved_space, read-only servers, release on close/abort/timeout)."""
META = {
    "level": "exploration",
    "technique": "history + ledger model on the real StorageServer.allocate_buckets / BucketWriter against a simulated disk placed behind os.statvfs as seen by allmydata.util.fileutil",
    "text": "Drives the real StorageServer (allocate_buckets, BucketWriter.write/close/abort, 30-minute timeout under the virtual clock) directly and through the Foolscap front end (FoolscapStorageServer.remote_allocate_buckets with a broker-like canary, FoolscapBucketWriter.remote_write/close/abort, connection loss with several shares of one request still open) against a simulated disk of random capacity with random reserved_space, root-only reserve and read-only flag, in three disk-statistics models crossed with read-only yes/no and reserved_space 0/non-zero (statistics available; no disk-statistics API = os.statvfs raises AttributeError so get_available_space is None; the OS call fails with OSError), servers optionally started on a directory that already holds shares; storage indexes that share the 2-character incoming/ prefix directory (close/abort interleavings); in a fifth of the statistics cases reserved_space comes from a tahoe.cfg string ('1.5kB', '0.5 KiB', ...) through the real _Client.get_anonymous_storage_server and the oracle uses the documented meaning of that string; fileutil.get_disk_stats/get_available_space stay the real code (only os.statvfs is substituted; used bytes = bytes really materialised below the storage dir, sparse incoming files counted by what was written). At every allocate_buckets the oracle computes, independently, free space before the call, and demands: sum of sizes of newly granted writers + sizes of uploads still open + reserved_space <= free space (none granted when that budget is <= 0); a read-only server must grant nothing in every disk model; writable servers that cannot learn their free space are generated but not judged (the statement gives no bound); after every operation allocated_size() must equal the sum of sizes of the open uploads of the ledger model.",
    "note": "Trusts the SimDisk accounting (st_size of files, written bytes for sparse incoming files) and the ledger model; per-share container overhead (12-byte header, 72-byte leases) is not part of a share's 'reserved size' in the statement and is not charged by the oracle. Upload timeout assumed to be 30 min of inactivity, judged only >1 s away from it.",
}
LEVEL = "exploration"
BUDGET = {"quick": 40, "thorough": 200}
SHARDS = {"quick": 1, "thorough": 8}

import os
from vf import env  # noqa
from vf.checks import _storage as S

TIMEOUT = 30 * 60


class ModalDisk(S.SimDisk):
    """SimDisk with a disk-statistics *model*:
       "stats"   : os.statvfs answers (the simulated numbers)
       "noapi"   : the platform has no disk-statistics API -- os.statvfs raises AttributeError, which
                   fileutil.get_available_space documents/turns into None ("no API to get this information")
       "oserror" : the OS call fails -- os.statvfs raises OSError (fileutil logs it and reports 0)."""

    def __init__(self, root, total, root_reserve, mode):
        S.SimDisk.__init__(self, root, total, root_reserve)
        self.mode = mode

    def statvfs(self, path):
        if self.mode == "noapi":
            self.calls += 1
            raise AttributeError("module 'os' has no attribute 'statvfs'")
        if self.mode == "oserror":
            self.calls += 1
            raise OSError(5, "Input/output error (simulated)")
        return S.SimDisk.statvfs(self, path)


class W(object):
    """one open upload; ``writer`` is a BucketWriter (direct API) or a FoolscapBucketWriter (front end)"""

    def __init__(self, si, sh, size, writer, now, canary=None, req=None):
        self.si, self.sh, self.size, self.writer = si, sh, size, writer
        self.written = 0
        self.last_any = now
        self.canary, self.req = canary, req      # client connection / allocation request it came from

    def write(self, off, data):
        return self.writer.remote_write(off, data) if self.canary is not None else self.writer.write(off, data)

    def close(self):
        return self.writer.remote_close() if self.canary is not None else self.writer.close()

    def abort(self):
        return self.writer.remote_abort() if self.canary is not None else self.writer.abort()


def run(ck):
    ck.rule = ("one case = one server configuration (disk capacity, root reserve, reserved_space, read-only) + a history "
               "of 30..70 allocate/write/close/abort/advance ops with sizes biased to the remaining budget (==, +-1, "
               "split over several shares); every allocate_buckets call is one evaluation; distinct = distinct "
               "(configuration, history prefix, request); non-trivial = request asks for at least one share it does not have")
    ncases = 250 if ck.tier == "quick" else 14000
    for ci in range(ncases):
        if not ck.mine(ci):
            continue
        if ck.out_of_time():
            break
        rng = ck.rng("case", ci)
        total = rng.choice([5000, 20000, 80000, rng.randint(3000, 100000)])
        root_reserve = rng.choice([0, 0, 500, total // 10])
        reserved = rng.choice([0, 0, 0, 1, 500, 1000, total // 10, total // 4, total // 2, total * 2])
        # disk model x read-only x reserved_space (0 / non-zero) are crossed; "stats" keeps the budget histories
        mode = rng.choice(["stats"] * 6 + ["noapi"] * 2 + ["oserror"] * 2)
        readonly = rng.random() < (.12 if mode == "stats" else .5)
        if mode != "stats":
            reserved = rng.choice([0, reserved or 1000])
        # reserved_space as the operator writes it in tahoe.cfg ([storage]reserved_space = "1.5kB"), turned into the
        # server's setting by the real client code; the oracle keeps using the documented meaning of the string
        cfg = None
        if mode == "stats" and rng.random() < .2:
            cfg = rng.choice(CFG_SIZES)
            reserved = documented_size(cfg)
        # Case() builds a writable server on a normal simulated disk: it only serves to put shares on disk
        # before the server under test (possibly read-only, possibly without disk statistics) is started
        case = S.Case(rng, disk_total=total, root_reserve=root_reserve)
        try:
            _one_case(ck, rng, case, total, root_reserve, reserved, readonly, mode, cfg)
        except Exception as e:
            import traceback
            tb = traceback.extract_tb(e.__traceback__)[-1]
            ck.violation("op-raises-%s" % type(e).__name__, "%s: %s at %s:%d" % (
                type(e).__name__, e, os.path.basename(tb.filename), tb.lineno), {"case": ci})
        finally:
            case.close()
    for m in ("allocation-within-budget", "ledger", "disconnect-releases", "readonly-grants-none", "readonly-grants-none:stats",
              "readonly-grants-none:noapi", "readonly-grants-none:oserror",
              "configured-reserve-is-documented-value"):
        ck.require_monitor(m)
    for r in ("granted", "refused-no-space", "partially-granted", "budget-exactly-met", "budget-exceeded-by-1-refused",
              "open-uploads-counted", "reserved-space-binding", "released-by-close", "released-by-abort",
              "released-by-timeout", "readonly-server", "multi-share-request", "regrant-after-release",
              "readonly-holding-shares", "readonly-reserved-0", "readonly-reserved-nonzero", "writable-noapi-grants",
              "writable-oserror", "foolscap-front-end", "released-by-disconnect",
              "disconnect-with-several-open-shares-of-one-request",
              "close-while-other-index-in-same-incoming-prefix", "abort-while-other-index-in-same-incoming-prefix",
              "reserved-space-from-tahoe-cfg", "reserved-space-from-tahoe-cfg-decimal"):
        ck.require_reach(r)
    ck.exhaustive = False


CFG_SIZES = ["1.5kB", "0.5 KiB", "1.50 kB", "1.5K", "2.25KiB", "0.001MB", "1500", "2K", "1KiB", "1.5 kb", "0.75kiB",
             "12.5 kB", "1.024kB"]


def documented_size(text):
    """docs/configuration.rst: a number, an optional case-insensitive scale suffix K M G T P E, an optional "i"
    (powers of 1024 instead of 1000), optionally followed by "B".  Written independently of util/abbreviate.py."""
    from fractions import Fraction
    t = text.strip().upper()
    if t.endswith("B"):
        t = t[:-1]
    binary = t.endswith("I")
    if binary:
        t = t[:-1]
    scale = 1
    if t and t[-1] in "KMGTPE":
        scale = (1024 if binary else 1000) ** ("KMGTPE".index(t[-1]) + 1)
        t = t[:-1]
    value = Fraction(t.strip()) * scale
    assert value.denominator == 1, text
    return int(value)


def server_from_tahoe_cfg(case, cfg_text, readonly):
    """The StorageServer a node builds from tahoe.cfg: the real _Client.get_anonymous_storage_server (config lookup,
    parse_abbreviated_size, StorageServer(...)) run on a minimal stand-in for the node object."""
    from twisted.application import service
    from allmydata.client import _Client, _valid_config
    from allmydata.node import config_from_string

    class NodeStandIn(service.MultiService):
        STOREDIR = _Client.STOREDIR

        def __init__(self, config, nodeid):
            service.MultiService.__init__(self)
            self.config = config
            self.get_config = config.get_config
            self.nodeid = nodeid
            self.stats_provider = None

    text = "[storage]\nenabled = true\nreadonly = %s\nreserved_space = %s\n" % ("true" if readonly else "false", cfg_text)
    config = config_from_string(case.tmp, "client.port", text, _valid_config=_valid_config())
    node = NodeStandIn(config, case.nodeid)
    ss = _Client.get_anonymous_storage_server(node)
    return ss


def _one_case(ck, rng, case, total, root_reserve, reserved, readonly, mode, cfg=None):
    from allmydata.interfaces import NoSpace
    # storage indexes that share the 2-character prefix directory below shares/ and shares/incoming/
    sis = [S.rand_si(rng) for _ in range(rng.choice([1, 2, 3]))]
    if len(sis) >= 2 and rng.random() < .6:
        sis = [sis[0]] + [sis[0][:2] + x[2:] for x in sis[1:]]
    same_prefix = len(sis) >= 2 and len({S.b32(x)[:2] for x in sis}) == 1
    client_secrets = {si: (S.rand_bytes(rng, 32), S.rand_bytes(rng, 32)) for si in sis}
    opened = {}      # (si, sh) -> W
    final = set()    # (si, sh)
    history = []
    config = {"disk_total": total, "root_reserve": root_reserve, "reserved_space": reserved, "readonly": readonly,
              "disk_model": mode}
    # shares the server already holds when it is (re)started -- a read-only server is typically an old full one
    if rng.random() < (.6 if readonly else .25):
        for si in rng.sample(sis, rng.randint(1, len(sis))):
            shs = set(rng.sample(range(8), rng.randint(1, 2)))
            sz = rng.choice([10, 200, max(1, total // 50)])
            _a, ws = case.ss.allocate_buckets(si, client_secrets[si][0], client_secrets[si][1], shs, sz)
            for sh, w in ws.items():
                w.write(0, S.rand_bytes(rng, sz))
                w.close()
                final.add((si, sh))
        config["preloaded_shares"] = len(final)
    # the server under test: same storage dir, its own disk model
    disk = ModalDisk(case.storedir, total, root_reserve, mode)
    S.install_disk(disk)
    case.disk = disk
    if cfg is None:
        ss = case.ss = S.make_server(case.tmp, nodeid=case.nodeid, reserved_space=reserved, readonly_storage=readonly)
    else:
        config["tahoe_cfg_reserved_space"] = cfg
        try:
            ss = case.ss = server_from_tahoe_cfg(case, cfg, readonly)
        except ValueError:
            ck.skip("tahoe-cfg-size-refused-at-startup")      # no server, nothing accepted: not judged
            return
        ck.hit("reserved-space-from-tahoe-cfg")
        if "." in cfg:
            ck.hit("reserved-space-from-tahoe-cfg-decimal")
        ck.mon("configured-reserve-is-documented-value")
        if ss.reserved_space != reserved:
            ck.violation("configured-reserved-space-misread",
                         "[storage]reserved_space = %s means %d bytes (docs/configuration.rst) but the server reserves %d"
                         % (cfg, reserved, ss.reserved_space), {"config": config})
            return
    from allmydata.storage.server import FoolscapStorageServer
    fss = FoolscapStorageServer(ss)
    canaries = [S.Canary(), S.Canary()]
    refused_once = [False]

    def now():
        return env.reactor.seconds()

    def viol(key, what, **w):
        w["config"] = config
        w["history_tail"] = history[-8:]
        ck.violation(key, what, w)
        raise _Stop()

    def ledger(after):
        ck.mon("ledger")
        want = sum(w.size for w in opened.values())
        got = ss.allocated_size()
        if got != want:
            viol("reservation-ledger", "allocated_size()=%d, open uploads reserve %d (after %s)" % (got, want, after),
                 open=[(sis.index(w.si), w.sh, w.size) for w in opened.values()])

    def budget():
        """what the statement allows to be newly reserved right now"""
        free = disk.free()                        # bytes a non-root user can still write
        open_sum = sum(w.size for w in opened.values())
        return free, open_sum, free - reserved - open_sum

    def do_allocate():
        si = rng.choice(sis)
        k = rng.choice([1, 1, 2, 3, 4, 6])
        sharenums = set(rng.sample(range(8), k))
        new = sorted(sh for sh in sharenums if (si, sh) not in opened and (si, sh) not in final)
        free, open_sum, b = budget()
        n = max(1, len(new))
        cands = [rng.randint(1, 3000), 100, 1000]
        if b > 0:
            cands += [b, b + 1, max(1, b - 1), max(1, b // n), b // n + 1, max(1, b // n - 1),
                      max(1, b // 2), max(1, b - 84), max(1, (b - 84 * n) // n),
                      max(1, b // 5), max(1, b // 9), max(1, b // 20), max(1, b // (3 * n))]
        else:
            cands += [1, 1]
        size = max(1, rng.choice(cands))
        history.append(("allocate", sis.index(si), sorted(sharenums), size, "budget=%d" % b))
        # one client re-uses its lease secrets for a storage index (renewal needs no space);
        # now and then another client shows up (a new 72-byte lease on every held share)
        rs, cs = client_secrets[si] if rng.random() < .8 else (S.rand_bytes(rng, 32), S.rand_bytes(rng, 32))
        canary = rng.choice(canaries) if rng.random() < .45 else None
        try:
            if canary is None:
                already, writers = ss.allocate_buckets(si, rs, cs, sharenums, size)
            else:
                # the Foolscap front end: uploads live as long as the client's connection (canary)
                ck.hit("foolscap-front-end")
                already, writers = fss.remote_allocate_buckets(si, rs, cs, sharenums, size, canary)
        except NoSpace:
            # renewing the lease on a share the server already holds needs 72 bytes it does not have;
            # the call fails as a whole before any writer exists: nothing accepted (ledger() checks that)
            ck.observe("allocate-raises-NoSpace-while-renewing-lease-of-held-share")
            if not any(s == si for (s, _sh) in final):
                viol("nospace-without-held-share", "allocate_buckets raised NoSpace although the server holds no share of it")
            ck.case("allocate-nospace", key=(repr(config), len(history)), nontrivial=False)
            return
        except TypeError as e:
            # without a disk-statistics API available space is None and the lease-renewal space test
            # (`lease_info.immutable_size() > available_space`) cannot compare: the call fails as a whole
            # before any writer exists.  A defect, but not one this statement speaks about.
            if mode != "noapi" or "NoneType" not in str(e) or not any(s == si for (s, _sh) in final):
                raise
            ck.observe("allocate-raises-TypeError-comparing-with-None-available-space")
            ck.case("allocate-typeerror", key=(repr(config), len(history)), nontrivial=False)
            return
        granted = sorted(writers)
        for sh in granted:
            disk.sparse[case.incoming_path(si, sh)] = 12 + 72     # header + first lease materialised, data still a hole
        ck.mon("allocation-within-budget")
        req = {"free_space": free, "open_uploads": open_sum, "reserved_space": reserved, "budget": b,
               "size": size, "asked": sorted(sharenums), "granted": granted}
        if set(granted) - set(new):
            viol("granted-existing-share", "writer granted for share(s) %r that are already uploaded/uploading"
                 % (sorted(set(granted) - set(new)),), **req)
        req["disk_model"] = mode
        if readonly:
            # "a read-only server accepts none" -- whatever the disk (statistics) looks like
            ck.hit("readonly-server")
            ck.hit("readonly-reserved-nonzero" if reserved else "readonly-reserved-0")
            if any(s == si for (s, _sh) in final):
                ck.hit("readonly-holding-shares")
            ck.mon("readonly-grants-none")
            ck.mon("readonly-grants-none:" + mode)
            if granted:
                viol("readonly-accepts" if mode == "stats" else "readonly-accepts-without-disk-stats",
                     "read-only server (disk model %r, reserved_space %d) granted %d writers of %d bytes"
                     % (mode, reserved, len(granted), size), **req)
        if mode != "stats" and not readonly:
            # writable server that cannot learn its free space: the statement gives no bound -- not judged
            ck.skip("writable-server-without-disk-stats:" + mode)
            if mode == "noapi" and granted:
                ck.hit("writable-noapi-grants")
            if mode == "oserror":
                ck.hit("writable-oserror")
        elif len(granted) * size > max(0, b):
            viol("overcommit", "granted %d x %d = %d bytes; free %d - reserved %d - uploads in progress %d leaves %d"
                 % (len(granted), size, len(granted) * size, free, reserved, open_sum, b), **req)
        # reach / non-vacuity
        if len(new) >= 2:
            ck.hit("multi-share-request")
        if granted and mode == "stats":
            ck.hit("granted", len(granted))
            if open_sum and b < free - reserved:
                ck.hit("open-uploads-counted")
            if len(granted) * size == b:
                ck.hit("budget-exactly-met")
            if refused_once[0]:
                ck.hit("regrant-after-release")
        if mode == "stats" and new and len(granted) < len(new):
            ck.hit("refused-no-space")
            refused_once[0] = True
            if granted:
                ck.hit("partially-granted")
            if (len(granted) + 1) * size == b + 1:
                ck.hit("budget-exceeded-by-1-refused")
            if reserved and (len(granted) + 1) * size <= free - open_sum:
                ck.hit("reserved-space-binding")
            if not readonly and (len(granted) + 1) * size <= b:
                ck.observe("refused-although-within-budget")
        for sh in granted:
            opened[(si, sh)] = W(si, sh, size, writers[sh], now(), canary, len(history))
        ck.case("allocate", key=(repr(config), len(history), repr(history[-1])), nontrivial=bool(new), sample=req)

    def pick():
        c = sorted(opened.values(), key=lambda w: (sis.index(w.si), w.sh))
        return rng.choice(c) if c else None

    def do_write():
        w = pick()
        if w is None or w.written >= w.size:
            return do_allocate()
        n = rng.randint(1, w.size - w.written)
        if rng.random() < .4:
            n = w.size - w.written
        history.append(("write", sis.index(w.si), w.sh, w.written, n))
        w.last_any = now()
        w.write(w.written, S.rand_bytes(rng, n))
        w.written += n
        disk.sparse[case.incoming_path(w.si, w.sh)] = 84 + w.written

    def release(w):
        del opened[(w.si, w.sh)]
        disk.sparse.pop(case.incoming_path(w.si, w.sh), None)

    def do_close():
        w = pick()
        if w is None:
            return do_allocate()
        history.append(("close", sis.index(w.si), w.sh, "%d/%d written" % (w.written, w.size)))
        others = [x for x in opened.values() if x.si != w.si and S.b32(x.si)[:2] == S.b32(w.si)[:2]]
        if others:
            ck.hit("close-while-other-index-in-same-incoming-prefix")
        try:
            w.close()
        except OSError as e:
            # the upload itself completed if the share reached its final place; the statement then demands that its
            # reservation is gone -- ledger() right after this judges exactly that
            if not os.path.exists(case.final_path(w.si, w.sh)):
                raise
            ck.observe("close-raised-after-share-was-finalised:" + type(e).__name__)
        release(w)
        final.add((w.si, w.sh))
        ck.hit("released-by-close")

    def do_abort():
        w = pick()
        if w is None:
            return do_allocate()
        history.append(("abort", sis.index(w.si), w.sh))
        if any(x.si != w.si and S.b32(x.si)[:2] == S.b32(w.si)[:2] for x in opened.values()):
            ck.hit("abort-while-other-index-in-same-incoming-prefix")
        w.abort()
        release(w)
        ck.hit("released-by-abort")

    def do_disconnect():
        # the client's connection is lost: every upload it still has open is abandoned and, per the statement,
        # its reservation must be released ("...released when the upload completes or is aborted")
        cands = [c for c in canaries if any(w.canary is c for w in opened.values())]
        if not cands:
            return do_allocate()
        c = rng.choice(cands)
        victims = sorted([w for w in opened.values() if w.canary is c], key=lambda w: (sis.index(w.si), w.sh))
        per_req = {}
        for w in victims:
            per_req[w.req] = per_req.get(w.req, 0) + 1
        history.append(("disconnect", canaries.index(c), [(sis.index(w.si), w.sh, w.size) for w in victims]))
        c.disconnect()
        for w in victims:
            release(w)
        ck.hit("released-by-disconnect", len(victims))
        if max(per_req.values()) >= 2:
            ck.hit("disconnect-with-several-open-shares-of-one-request")
        canaries[canaries.index(c)] = S.Canary()      # the client reconnects
        ck.mon("disconnect-releases")
        left = [(sis.index(w.si), w.sh) for w in victims if os.path.exists(case.incoming_path(w.si, w.sh))]
        if left:
            viol("disconnect-leaves-upload-open", "connection lost but upload(s) %r still have their incoming file and "
                 "allocated_size() still reserves %d bytes (other open uploads: %d)"
                 % (left, ss.allocated_size(), sum(w.size for w in opened.values())))

    def do_advance():
        dt = rng.choice([1, 600, 1700, 1799, 1801, 1900, 4000])
        history.append(("advance", dt))
        env.reactor.advance(dt)
        for w in sorted(opened.values(), key=lambda w: (sis.index(w.si), w.sh)):
            idle = now() - w.last_any
            alive = os.path.exists(case.incoming_path(w.si, w.sh))
            if idle >= TIMEOUT + 1:
                release(w)                      # ledger() now demands the reservation is gone
                ck.hit("released-by-timeout")
            elif idle <= TIMEOUT - 1:
                if not alive:
                    ck.observe("upload-gone-before-30min")
                    release(w)
            else:
                ck.skip("timeout-within-1s-of-threshold")
                if not alive:
                    release(w)

    table = [do_allocate] * 38 + [do_write] * 28 + [do_close] * 12 + [do_abort] * 9 + [do_advance] * 8 + [do_disconnect] * 6
    try:
        ledger("start")
        do_allocate()
        ledger("allocate")
        for _ in range(rng.randint(30, 70)):
            rng.choice(table)()
            ledger(history[-1][0])
    except _Stop:
        pass


class _Stop(Exception):
    pass


# MUST_CATCH -- planted breaks run against scratch copies (VF_REPO), quick tier, seed 0; all exit 1:
#  1. server.py allocate_buckets: `remaining_space -= self.allocated_size()` dropped      CAUGHT (overcommit)
#  2. server.py allocate_buckets: per-share `remaining_space -= max_space_per_bucket` dropped   CAUGHT (overcommit)
#  3. server.py allocate_buckets: `remaining_space >= size` -> `> 0` / `+ 1 >=`           CAUGHT (overcommit)
#  4. server.py bucket_writer_closed: entry not removed                                   CAUGHT (reservation-ledger)
#  5. server.py get_available_space: read-only flag ignored                               CAUGHT (readonly-accepts)
#  6. fileutil.py get_disk_stats: reserved_space not subtracted                           CAUGHT (overcommit)
#  7. fileutil.py get_disk_stats: avail from free_for_root                                CAUGHT (overcommit)
#  8. immutable.py abort / close: bucket_writer_closed not called                         CAUGHT (reservation-ledger)
#  9. server.py allocated_size(): counts half of each writer                              CAUGHT (reservation-ledger)
# 10. server.py get_available_space: read-only tested only after the "no disk-stats API -> None" return (seeded C28-4)
#                                                                        CAUGHT (readonly-accepts-without-disk-stats)
#     -- was MISSED while every server ran on a disk with statistics; disk model (stats / no API / OSError) is now a
#        case dimension crossed with read-only and reserved_space.
# 11. server.py get_available_space: read-only honoured only when statistics are available     CAUGHT (same key)
# 12. fileutil.py get_available_space: OSError reported as None (unlimited)                     CAUGHT (op-raises-TypeError)
# The list is kept runnable in selftest/breaks_c28.py (tools/selftest.py --prop C28: 14/14 caught).
# 13. server.py remote_allocate_buckets: disconnect callback closes over the loop variable (seeded C28-6): only the last
#     share of a request is aborted when the connection is lost        CAUGHT (disconnect-leaves-upload-open)
#     -- was MISSED while C28 only used the direct API; the Foolscap front end + connection loss are now history steps.
# 14. immutable.py BucketWriter.disconnected: does nothing              CAUGHT (disconnect-leaves-upload-open)
# 15. immutable.py BucketWriter.close: rmdir of the shared incoming prefix directory raises after the share was
#     finalised (seeded C28-7)                        CAUGHT (reservation-ledger; storage indexes sharing the prefix)
# 16. util/abbreviate.py parse_abbreviated_size drops the decimal part / reads KiB as 1000 (seeded C28-8)
#                                                     CAUGHT (configured-reserved-space-misread; tahoe.cfg leg)
