"""C46 immutable reads always terminate."""
META = {
    "level": "exploration",
    "technique": "runtime monitoring under a virtual-time scheduler: progress-at-quiescence oracle (every read Deferred has fired once all queues are empty and all timers within the horizon have fired) over fault plans, corrupted/forged share sets and concurrent + follow-up reads on one node",
    "text": "Restates the liveness claim as bounded progress: on the virtual reactor, after every server has answered or failed (no never-answering servers in the plans), each issued read must have called back or errbacked by the time nothing is runnable and 4 virtual hours have passed; a read that burns 200k scheduler steps without finishing is reported as a livelock. Workload: the C03 fault plans without infinite hangs, plus malicious-uploader share sets (ciphertext mismatch => segment failure), 1..3 concurrent reads of random ranges on the same node object and 1..3 follow-up reads after failures.",
    "note": "Unbounded liveness is not decidable by a finite run; the check decides the bounded restatement on the executions explored. Servers that never answer are excluded, as the statement does.",
}
BUDGET = {"quick": 45, "thorough": 480}

from vf import env  # noqa


def run(ck):
    from vf.checks import _immfault as F
    from vf import imm
    from vf.grid import VGrid
    from allmydata import uri
    ck.rule = ("case = fault plan (as C03, no infinite hangs) or forged mixed share set; 1..3 concurrent reads then 1..3 "
               "follow-up reads on the same node; distinct = case description + read ranges; non-trivial = some fault, "
               "bad share or forged share present")
    i = 0
    while ck.more(min_cases=120):
        i += 1
        if not ck.mine(i):
            continue
        rng = ck.rng("case", i)
        profile = rng.choice(["fifo", "per-server-fifo", "free"])
        if i % 5 == 2:
            with ck.watchdog(180, "cut case %d" % i):
                cut_between_segments(ck, rng, i, profile)
            continue
        forged = (i % 4 == 0)
        g = None
        try:
            if forged:
                n = rng.choice([2, 3, 4, 5])
                k = rng.randint(1, n)
                segsize = rng.choice([32, 64, 256])
                size = rng.choice([56, 100, segsize * 2 + 3, segsize * 4])
                p = dict(k=k, n=n, segsize=segsize)
                nservers = rng.randint(1, n + 1)
                A, B = imm.gen_data(rng, size), rng.randbytes(size)
                key = rng.randbytes(16)
                try:
                    _, sa = imm.honest_shares(nservers, p, A, key)
                    _, sb = imm.honest_shares(nservers, p, B, key)
                except RuntimeError:
                    ck.observe("scratch-upload-failed")
                    continue
                from_b = set(rng.sample(range(n), rng.randint(1, n)))
                cap, shares = imm.forge_mixed_set(sa, sb, from_b, k, n, size, key)
                g = VGrid(nservers=nservers, seed=rng.getrandbits(32), profile=profile, keep_log=False)
                imm.install_shares(g, uri.from_string(cap).get_storage_index(), shares)
                c = g.make_client(k=k, happy=1, n=n, max_segment_size=segsize)
                desc = dict(kind="forged", k=k, n=n, size=size, segsize=segsize, nservers=nservers,
                            from_b=sorted(from_b), profile=profile)
                nontrivial = True
            else:
                case = F.build(rng, allow_hang=False)
                try:
                    g, c, cap, data = F.materialize(case, rng, rng.getrandbits(32), profile)
                except RuntimeError:
                    ck.observe("scratch-upload-failed")
                    continue
                size = case["size"]
                desc = dict(kind="faults", case=case, profile=profile)
                nontrivial = any(p[2] != "good" for p in case["placements"]) or any(
                    f["kind"] != "none" for f in case["faults"].values())
            with ck.watchdog(180, "case %d" % i):
                # the downloader's first guess of the segment size (1 MiB in production) below / at / above the real one:
                # a wrong guess sends the first read of a fresh node through the retry paths
                from allmydata.immutable.downloader.node import DownloadNode
                saved_guess = DownloadNode.default_max_segment_size
                real_seg = desc["segsize"] if forged else desc["case"]["segsize"]
                DownloadNode.default_max_segment_size = rng.choice([saved_guess, 16, max(1, real_seg // 2), max(1, real_seg // 4),
                                                                    real_seg, real_seg * 2 + 1])
                if DownloadNode.default_max_segment_size < real_seg:
                    ck.hit("segment-size-guess-below-the-real-size")
                if rng.random() < .3:
                    # servers that do not tolerate reads past the end of a share: the downloader must then fetch the
                    # header, the offset table and the UEB in exact pieces instead of one speculative read
                    for vs in g.servers:
                        v1 = vs.wire.version.get(b"http://allmydata.org/tahoe/protocols/storage/v1")
                        if isinstance(v1, dict):
                            v1[b"tolerates-immutable-read-overrun"] = False
                    ck.hit("servers-do-not-tolerate-read-overrun")
                node = c.create_node_from_uri(cap)
                history = []
                failed_before = False
                for rnd in range(rng.randint(2, 4)):
                    nconc = rng.randint(1, 3) if rnd == 0 else rng.randint(1, 2)
                    reads = []
                    for _ in range(nconc):
                        if rng.random() < .4:
                            off, sz = 0, None
                        else:
                            off = rng.randint(0, size)
                            sz = rng.choice([None, 1, rng.randint(1, size)])
                        cons = imm.RecordingConsumer()
                        box = []
                        d = node.read(cons, off, sz)
                        d.addBoth(box.append)
                        reads.append((off, sz, box))
                    st = g.sched.run(until=lambda: all(b for (_, _, b) in reads), max_steps=200000, horizon=4 * 3600.0)
                    ck.mon("termination-oracle", len(reads))
                    outcomes = []
                    for (off, sz, box) in reads:
                        if box:
                            f = box[0]
                            isf = hasattr(f, "type") and hasattr(f, "value")
                            outcomes.append("err:" + f.type.__name__ if isf else "ok")
                            ck.hit("completed-err" if isf else "completed-ok")
                        else:
                            outcomes.append("PENDING")
                    history.append(dict(round=rnd, reads=[(o, s) for (o, s, _) in reads], outcomes=outcomes, sched=st))
                    if any(o == "PENDING" for o in outcomes):
                        w = dict(desc, history=history, counts=dict(g.sched.counts))
                        if st == "steps":
                            ck.violation("read-livelock",
                                         "a read consumed 200000 scheduler steps (%r) without completing" % (g.sched.counts,), w)
                        elif failed_before:
                            ck.violation("later-read-hangs-after-failed-read",
                                         "after an earlier read on the same node failed, a later read never completed "
                                         "although nothing was left to run", w)
                        else:
                            ck.violation("read-never-completes",
                                         "every queue is empty and all timers fired, yet a read has neither called back "
                                         "nor errbacked", w)
                        break
                    if any(o.startswith("err") for o in outcomes):
                        failed_before = True
                        ck.hit("follow-up-after-failure" if rnd + 1 < 4 else "x")
                ck.case("forged" if forged else "faults", key=repr((desc, [h["reads"] for h in history])),
                        nontrivial=nontrivial,
                        sample=dict(kind=desc["kind"], profile=profile, history=history[:2]))
        finally:
            try:
                from allmydata.immutable.downloader.node import DownloadNode
                from allmydata.interfaces import DEFAULT_IMMUTABLE_MAX_SEGMENT_SIZE
                DownloadNode.default_max_segment_size = DEFAULT_IMMUTABLE_MAX_SEGMENT_SIZE
            except Exception:
                pass
            if g is not None:
                g.close()
        if ck.tier == "quick" and ck.evaluations >= 1500:
            break
    ck.require_monitor("termination-oracle")
    ck.require_reach("completed-ok", "completed-err", "follow-up-after-failure", "connection-cut-between-segments",
                     "segment-size-guess-below-the-real-size", "servers-do-not-tolerate-read-overrun")


def cut_between_segments(ck, rng, i, profile):
    """Directed history: a multi-segment file; the moment the consumer is handed a segment (no block request is
    outstanding, the next segment has not been asked for yet) some or all share-holding servers lose their connection
    or start failing every read, possibly with requests of theirs still in flight.  Every call is answered or failed,
    so each read must call back or errback."""
    from vf.grid import VGrid
    from vf import imm
    from allmydata import uri
    k = rng.randint(1, 3)
    n = rng.randint(k, k + 3)
    # shares larger than the downloader's first speculative read (~2 kB), so that later reads are still in flight
    # when a segment is delivered
    segsize = rng.choice([128, 1024, 1024, 4096])
    nseg = rng.randint(2, 6)
    size = max(56, segsize * nseg - rng.randint(0, 3))
    nservers = rng.randint(1, n + 1)
    data = imm.gen_data(rng, size)
    try:
        cap, shares = imm.honest_shares(max(nservers, 1), dict(k=k, n=n, segsize=segsize), data, rng.randbytes(16))
    except RuntimeError:
        ck.observe("scratch-upload-failed")
        return
    g = VGrid(nservers=nservers, seed=rng.getrandbits(32), profile=profile, keep_log=False)
    try:
        si = uri.from_string(cap).get_storage_index()
        layout = rng.choice(["one-server", "spread", "two-servers"])
        place = {sh: (0 if layout == "one-server" else sh % nservers if layout == "spread" else sh % min(2, nservers))
                 for sh in shares}
        imm.install_shares(g, si, shares, place)
        holders = sorted(set(place.values()))
        victims = holders if rng.random() < .6 else rng.sample(holders, rng.randint(1, len(holders)))
        how = rng.choice(["disconnect", "disconnect", "raise-all-reads"])
        after = rng.randint(1, nseg)          # cut when the consumer receives its `after`-th chunk
        c = g.make_client(k=k, happy=1, n=n, max_segment_size=segsize)
        node = c.create_node_from_uri(cap)
        state = {"writes": 0, "cut": False}

        def on_write(cons, chunk):
            state["writes"] += 1
            if state["writes"] == after and not state["cut"]:
                state["cut"] = True
                for s in victims:
                    if how == "disconnect":
                        g.servers[s].disconnect()
                    else:
                        g.servers[s].add_fault("raise", method="read")
        reads = []
        for _ in range(rng.randint(1, 2)):
            cons = imm.RecordingConsumer(on_write)
            box = []
            node.read(cons, 0, None).addBoth(box.append)
            reads.append(box)
        st = g.sched.run(until=lambda: all(reads), max_steps=200000, horizon=4 * 3600.0)
        follow = []
        if all(reads):
            box = []
            node.read(imm.RecordingConsumer(), rng.randint(0, size - 1), None).addBoth(box.append)
            follow.append(box)
            st = g.sched.run(until=lambda: all(follow), max_steps=200000, horizon=4 * 3600.0)
        ck.mon("termination-oracle", len(reads) + len(follow))
        w = dict(kind="cut-between-segments", k=k, n=n, size=size, segsize=segsize, nservers=nservers, layout=layout,
                 victims=victims, how=how, after_chunk=after, cut=state["cut"], profile=profile, sched=st,
                 pending=[not b for b in reads + follow])
        if state["cut"]:
            ck.hit("connection-cut-between-segments")
        for b in reads + follow:
            if b:
                isf = hasattr(b[0], "type") and hasattr(b[0], "value")
                ck.hit("completed-err" if isf else "completed-ok")
        if not all(reads + follow):
            if st == "steps":
                ck.violation("read-livelock", "a read consumed 200000 scheduler steps without completing", w)
            else:
                ck.violation("read-never-completes", "every queue is empty and all timers fired, yet a read has neither "
                             "called back nor errbacked (servers %s %s after chunk %d)" % (victims, how, after), w)
        ck.case("cut", key=repr(w), nontrivial=True, sample=w)
    finally:
        g.close()
