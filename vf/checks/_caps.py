"""Independent model of Tahoe capability strings, shared by C15 / C16 / C43.

Nothing in here imports allmydata at module level and nothing re-uses the
repo's base32 / regex / hash-tag definitions: the alphabet, the canonical tail
characters, the per-kind grammar and the hash tags are re-typed from the
specification (docs/specifications/uri.rst, mutable.rst) so that the checks
compare the real code against a second opinion.
"""
import hashlib
import re

# ------------------------------------------------------------------ base32
B32 = b"abcdefghijklmnopqrstuvwxyz234567"
_B32IDX = {c: i for i, c in enumerate(B32)}


def b32enc(data):
    """RFC 3548 lower-case, unpadded, minimal number of quintets."""
    bits = len(data) * 8
    if bits == 0:
        return b""
    pad = (-bits) % 5
    n = int.from_bytes(data, "big") << pad
    nq = (bits + pad) // 5
    return bytes(B32[(n >> (5 * (nq - 1 - i))) & 31] for i in range(nq))


def b32dec_lenient(text):
    """Decode ignoring the spare low bits; None when not decodable at all."""
    n = 0
    for c in text:
        if c not in _B32IDX:
            return None
        n = (n << 5) | _B32IDX[c]
    bits = 5 * len(text)
    if len(text) % 8 in (1, 3, 6):
        return None
    nbytes = bits // 8
    spare = bits - 8 * nbytes
    return (n >> spare).to_bytes(nbytes, "big")


def _tail(spare):
    """Characters whose `spare` low bits are zero, as a regex class."""
    return "[" + "".join(chr(B32[i]) for i in range(32) if i % (1 << spare) == 0) + "]"


_C = "[a-z2-7]"
G128 = _C + "{25}" + _tail(2)        # 16 bytes -> 26 quintets, 2 spare bits
G256 = _C + "{51}" + _tail(4)        # 32 bytes -> 52 quintets, 4 spare bits
GINT = "(?:0|[1-9][0-9]*)"           # decimal, no sign, no blanks, no leading zero
GLIT = ("(?:" + _C + "{8})*(?:|" + _C + _tail(2) + "|" + _C + "{3}" + _tail(4) + "|" +
        _C + "{4}" + _tail(1) + "|" + _C + "{6}" + _tail(3) + ")")

_BODY = {
    "chk": G128 + ":" + G256 + ":" + GINT + ":" + GINT + ":" + GINT,
    "lit": GLIT,
    "ssk": G128 + ":" + G256,
    "mdmf": G128 + ":" + G256,
}


class Kind(object):
    def __init__(self, name, cls, shape, level, mutable, is_dir, inner=None):
        self.name = name
        self.prefix = ("URI:%s:" % name).encode("ascii")
        self.cls = cls            # expected class *name* in allmydata.uri
        self.shape = shape        # chk | lit | ssk | mdmf
        self.level = level        # w | r | v   (write / read / verify authority)
        self.mutable = mutable    # refers to a mutable object
        self.is_dir = is_dir
        self.inner = inner        # name of the wrapped file kind for DIR2-*
        body = _BODY[shape]
        self.strict_re = re.compile(("\\A" + re.escape(self.prefix.decode()) + body + "\\Z").encode("ascii"))
        if shape == "mdmf":
            # "MDMF caps can be arbitrarily extended after the fingerprint": ':' then anything
            self.ext_re = re.compile(("\\A(" + re.escape(self.prefix.decode()) + body + ")(:.*)?\\Z").encode("ascii"),
                                     re.DOTALL)
        else:
            self.ext_re = None

    def __repr__(self):
        return "<Kind %s>" % self.name


KINDS = [
    Kind("CHK", "CHKFileURI", "chk", "r", False, False),
    Kind("CHK-Verifier", "CHKFileVerifierURI", "chk", "v", False, False),
    Kind("LIT", "LiteralFileURI", "lit", "r", False, False),
    Kind("SSK", "WriteableSSKFileURI", "ssk", "w", True, False),
    Kind("SSK-RO", "ReadonlySSKFileURI", "ssk", "r", True, False),
    Kind("SSK-Verifier", "SSKVerifierURI", "ssk", "v", True, False),
    Kind("MDMF", "WriteableMDMFFileURI", "mdmf", "w", True, False),
    Kind("MDMF-RO", "ReadonlyMDMFFileURI", "mdmf", "r", True, False),
    Kind("MDMF-Verifier", "MDMFVerifierURI", "mdmf", "v", True, False),
    Kind("DIR2", "DirectoryURI", "ssk", "w", True, True, "SSK"),
    Kind("DIR2-RO", "ReadonlyDirectoryURI", "ssk", "r", True, True, "SSK-RO"),
    Kind("DIR2-Verifier", "DirectoryURIVerifier", "ssk", "v", True, True, "SSK-Verifier"),
    Kind("DIR2-CHK", "ImmutableDirectoryURI", "chk", "r", False, True, "CHK"),
    Kind("DIR2-CHK-Verifier", "ImmutableDirectoryURIVerifier", "chk", "v", False, True, "CHK-Verifier"),
    Kind("DIR2-LIT", "LiteralDirectoryURI", "lit", "r", False, True, "LIT"),
    Kind("DIR2-MDMF", "MDMFDirectoryURI", "mdmf", "w", True, True, "MDMF"),
    Kind("DIR2-MDMF-RO", "ReadonlyMDMFDirectoryURI", "mdmf", "r", True, True, "MDMF-RO"),
    Kind("DIR2-MDMF-Verifier", "MDMFDirectoryURIVerifier", "mdmf", "v", True, True, "MDMF-Verifier"),
]
BY_NAME = {k.name: k for k in KINDS}
KNOWN_CLASSES = {k.cls for k in KINDS}

RO_PREFIX = b"ro."
IMM_PREFIX = b"imm."


def strip_alleged(s):
    """(prefix, rest): at most ONE alleged prefix is a context marker."""
    if s.startswith(IMM_PREFIX):
        return IMM_PREFIX, s[len(IMM_PREFIX):]
    if s.startswith(RO_PREFIX):
        return RO_PREFIX, s[len(RO_PREFIX):]
    return b"", s


def kind_of_prefix(s):
    """The kind whose 'URI:<name>:' header `s` starts with (they all end in ':', so at most one)."""
    for k in KINDS:
        if s.startswith(k.prefix):
            return k
    return None


def grammar(s):
    """-> (kind, 'strict') | (kind, 'mdmf-ext') | (kind|None, None)"""
    k = kind_of_prefix(s)
    if k is None:
        return None, None
    if k.strict_re.match(s):
        return k, "strict"
    if k.ext_re is not None and k.ext_re.match(s):
        return k, "mdmf-ext"
    return k, None


# ------------------------------------------------------------ construction
def fmt(kind, fields):
    """Independent serializer: fields -> canonical cap string."""
    if kind.shape == "chk":
        a, b, k, n, size = fields
        return kind.prefix + b32enc(a) + b":" + b32enc(b) + (":%d:%d:%d" % (k, n, size)).encode("ascii")
    if kind.shape == "lit":
        return kind.prefix + b32enc(fields[0])
    a, b = fields
    return kind.prefix + b32enc(a) + b":" + b32enc(b)


def build(uri, kind, fields):
    """Construct the real allmydata.uri object through its constructor (not the parser)."""
    fk = BY_NAME[kind.inner] if kind.is_dir else kind
    cls = getattr(uri, fk.cls)
    if fk.shape == "lit":
        obj = cls(fields[0])
    else:
        obj = cls(*fields)
    if kind.is_dir:
        obj = getattr(uri, kind.cls)(obj)
    return obj


INTS = [0, 1, 2, 3, 9, 10, 11, 99, 100, 255, 256, 257, 65535, 65536,
        2 ** 31 - 1, 2 ** 31, 2 ** 32 - 1, 2 ** 32, 2 ** 32 + 1, 2 ** 63 - 1, 2 ** 63,
        2 ** 64 - 1, 2 ** 64, 2 ** 64 + 1, 10 ** 30]


def rand_int(rng):
    r = rng.random()
    if r < .6:
        return rng.choice(INTS)
    if r < .8:
        return rng.randrange(0, 300)
    return rng.getrandbits(rng.choice([16, 33, 64, 65, 100]))


def rand_bytes(rng, n):
    r = rng.random()
    if r < .06:
        return b"\x00" * n
    if r < .12:
        return b"\xff" * n
    return bytes(rng.getrandbits(8) for _ in range(n))


def rand_fields(rng, kind, minimal=False):
    if kind.shape == "chk":
        if minimal:
            return (b"\x00" * 16, b"\x00" * 32, 3, 10, 1234)
        return (rand_bytes(rng, 16), rand_bytes(rng, 32), rand_int(rng), rand_int(rng), rand_int(rng))
    if kind.shape == "lit":
        if minimal:
            return (b"",)
        n = rng.choice([0, 1, 2, 3, 4, 5, 6, 7, 8, 9, 10, 11, 12, 13, 15, 16, 17, 31, 32, 40, 54, 55])
        return (rand_bytes(rng, n),)
    if minimal:
        return (b"\x00" * 16, b"\x00" * 32)
    return (rand_bytes(rng, 16), rand_bytes(rng, 32))


# ------------------------------------------------------------------ hashes
# tags re-typed from docs/specifications (NOT imported from util/hashutil.py)
TAG_MUTABLE_READKEY = b"allmydata_mutable_writekey_to_readkey_v1"
TAG_MUTABLE_STORAGEINDEX = b"allmydata_mutable_readkey_to_storage_index_v1"
TAG_IMMUTABLE_STORAGEINDEX = b"allmydata_immutable_key_to_storage_index_v1"


def _netstring(s):
    return b"%d:%s," % (len(s), s)


def _sha256d(b):
    return hashlib.sha256(hashlib.sha256(b).digest()).digest()


def tagged(tag, val, n):
    return _sha256d(_netstring(tag) + val)[:n]


def ssk_readkey(writekey):
    return tagged(TAG_MUTABLE_READKEY, writekey, 16)


def ssk_si(readkey):
    return tagged(TAG_MUTABLE_STORAGEINDEX, readkey, 16)


def chk_si(key):
    return tagged(TAG_IMMUTABLE_STORAGEINDEX, key, 16)
