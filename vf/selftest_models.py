"""Self-test of the reference models against hand-computed vectors, so a wrong
model is caught before it accuses the code."""
import sys
from vf import models as M


def main():
    # matching
    assert M.max_matching({}) == 0
    assert M.max_matching({1: [], 2: []}) == 0
    assert M.max_matching({1: ["a"], 2: ["a"]}) == 1
    assert M.max_matching({1: ["a", "b"], 2: ["a"]}) == 2
    assert M.max_matching({1: ["a", "b"], 2: ["a"], 3: ["a"]}) == 2
    # docstring example of servers_of_happiness: 5
    sm = {1: {1, 5}, 2: {1, 5}, 3: {1, 3}, 4: {1, 4}, 6: {2}}
    sm = {1: {1}, 2: {1, 5}, 3: {1, 3}, 4: {1, 4}, 6: {2}}
    assert M.happiness_of_sharemap(sm) == 5
    # hashes: published vectors (test_hashutil known answers are independent of us)
    import hashlib
    assert M.netstring(b"abc") == b"3:abc,"
    assert M.sha256d(b"") == hashlib.sha256(hashlib.sha256(b"").digest()).digest()
    assert M.tagged_hash(b"tag", b"hello") == M.sha256d(b"3:tag,hello")
    for name in dir(M):
        f = getattr(M, name)
        if name.startswith("selftest_") and callable(f):
            f()
    print("models ok")


if __name__ == "__main__":
    sys.exit(main())
