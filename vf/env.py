"""E0: bootstrap.  Import this module FIRST (before anything from allmydata).

* puts <repo>/src, /verif/third_party and /verif/.deps on sys.path
* installs a virtual reactor (MemoryReactorClock) at a realistic epoch
* replaces foolscap's eventual-send queue by a queue the scheduler drains
* replaces allmydata.util.cputhreadpool.defer_to_thread by a schedulable,
  thread-free equivalent

Nothing is cached: allmydata is imported from the working tree each run.
"""
import os
import sys
import subprocess

VF_ROOT = os.path.dirname(os.path.dirname(os.path.abspath(__file__)))
REPO = os.environ.get("VF_REPO", "/repo")
DEPS = os.path.join(VF_ROOT, ".deps")
EPOCH = 1_700_000_000.0

sys.dont_write_bytecode = True  # never leave .pyc files inside /repo


def ensure_deps():
    """icontract / deal live in the git-ignored /verif/.deps."""
    if os.path.isdir(os.path.join(DEPS, "icontract")):
        return
    subprocess.run(
        [sys.executable, "-m", "pip", "install", "--quiet", "--no-index",
         "--find-links", "/opt/veriftools/wheels", "--target", DEPS,
         "icontract", "deal"],
        check=False, stdout=subprocess.DEVNULL, stderr=subprocess.DEVNULL,
        env=dict(os.environ, PIP_NO_INDEX="1"))


for p in (DEPS, os.path.join(VF_ROOT, "third_party"), os.path.join(REPO, "src")):
    if p not in sys.path:
        sys.path.insert(0, p)
if VF_ROOT not in sys.path:
    sys.path.insert(0, VF_ROOT)

os.environ.setdefault("TAHOE_LAFS_VERIF", "1")

# ---------------------------------------------------------------- reactor
from twisted.internet import main as _main  # noqa: E402
from twisted.internet.testing import MemoryReactorClock  # noqa: E402


class VReactor(MemoryReactorClock):
    """Virtual reactor.  callFromThread/callInThread run inline (no threads)."""

    def callFromThread(self, f, *a, **kw):
        f(*a, **kw)

    def callInThread(self, f, *a, **kw):
        f(*a, **kw)

    def getThreadPool(self):
        raise RuntimeError("no thread pool under the virtual reactor")

    def addSystemEventTrigger(self, *a, **kw):
        return object()

    def removeSystemEventTrigger(self, *a, **kw):
        pass


if "twisted.internet.reactor" in sys.modules:
    reactor = sys.modules["twisted.internet.reactor"]
    if not isinstance(reactor, MemoryReactorClock):
        raise RuntimeError("vf.env must be imported before the real reactor")
else:
    reactor = VReactor()
    _main.installReactor(reactor)
    reactor.advance(EPOCH)

# Twisted prints log.err() failures to stderr when logging was never started;
# the code under test logs expected, handled errors that way.  Collect instead.
from twisted.logger import globalLogBeginner  # noqa: E402

logged_failures = []


def _observer(event):
    if event.get("isError") or event.get("log_failure") is not None:
        if len(logged_failures) < 1000:
            logged_failures.append(str(event.get("log_failure") or event.get("why") or "")[:300])


try:
    globalLogBeginner.beginLoggingTo([_observer], redirectStandardIO=False, discardBuffer=True)
except Exception:
    pass

# ------------------------------------------------------ eventual-send queue
import foolscap.eventual as _fe  # noqa: E402
from twisted.internet import defer  # noqa: E402


class VEventualQueue(object):
    """Same contract as foolscap's _SimpleCallQueue (FIFO, exceptions are
    contained) but turns are run by vf.sched, not by a reactor timer."""

    def __init__(self):
        self._events = []
        self._flushObservers = []
        self.exceptions = []  # (repr(cb), repr(exc)) swallowed like foolscap does
        self.turns = 0
        self.calls = 0

    def append(self, cb, args, kwargs):
        self._events.append((cb, args, kwargs))

    def pending(self):
        return len(self._events)

    def _turn(self):
        self.turns += 1
        events, self._events = self._events, []
        for cb, args, kwargs in events:
            self.calls += 1
            try:
                cb(*args, **kwargs)
            except Exception as e:  # foolscap: log.err() and continue
                self.exceptions.append((getattr(cb, "__qualname__", repr(cb)),
                                        "%s: %s" % (type(e).__name__, e)))
        if not self._events:
            observers, self._flushObservers = self._flushObservers, []
            for o in observers:
                o.callback(None)

    def flush(self):
        if not self._events:
            return defer.succeed(None)
        d = defer.Deferred()
        self._flushObservers.append(d)
        return d

    def reset(self):
        self._events = []
        self._flushObservers = []
        self.exceptions = []


evq = VEventualQueue()
_fe._theSimpleQueue = evq

# ----------------------------------------------------------- thread pool
# Replace defer_to_thread before its importers bind the name.
import allmydata.util.cputhreadpool as _ctp  # noqa: E402

thread_jobs = []  # pending completions: (Deferred, result-or-Failure)
thread_stats = {"jobs": 0}
_THREAD_SYNC = [False]


async def _v_defer_to_thread(f, *args, **kwargs):
    thread_stats["jobs"] += 1
    if _THREAD_SYNC[0]:
        return f(*args, **kwargs)
    from twisted.python.failure import Failure
    try:
        res = f(*args, **kwargs)
    except Exception:
        res = Failure()
    d = defer.Deferred()
    thread_jobs.append((d, res))
    return await d


_ctp.defer_to_thread = _v_defer_to_thread


def set_thread_sync(flag):
    """flag=True: thread jobs complete synchronously (pure-function checks)."""
    _THREAD_SYNC[0] = bool(flag)


def repo_head():
    try:
        return subprocess.run(["git", "-C", REPO, "rev-parse", "--short", "HEAD"],
                              capture_output=True, text=True, timeout=20).stdout.strip()
    except Exception:
        return "?"
