"""E1: seeded / systematic / replayed delivery scheduler over the virtual reactor.

Event sources
  ev   one foolscap eventual-queue turn (FIFO, all callbacks queued so far)
  net  one pending wire message (request to a server object / response to a caller)
  thr  one pending defer_to_thread completion
  now  a reactor timer that is already due (callLater(0) etc.)
  tmr  advance virtual time to the next timer and fire it

A `chooser` picks among the canonically sorted enabled set.  Everything the
scheduler does is recorded in `trace` (choice list) so a run can be replayed.
"""
import hashlib
import random

from vf import env


class Msg(object):
    """A pending wire message."""
    __slots__ = ("chan", "direction", "seq", "label", "deliver", "dropped", "not_before")

    def __init__(self, chan, direction, seq, label, deliver):
        self.chan = chan            # server id (str)
        self.direction = direction  # "req" | "rsp"
        self.seq = seq
        self.label = label
        self.deliver = deliver
        self.dropped = False
        self.not_before = 0.0       # virtual time before which it is not deliverable

    def sortkey(self):
        return (self.chan, self.direction, self.seq)


class Stuck(Exception):
    pass


class Sched(object):
    PROFILES = ("fifo", "per-server-fifo", "free")

    def __init__(self, seed=0, profile="per-server-fifo", eager_timers=0.0,
                 choices=None, record=True, eager_horizon=2.0, net_latency=0.002):
        self.reactor = env.reactor
        self.rng = random.Random("sched/%s" % (seed,))
        self.profile = profile
        self.eager_timers = eager_timers   # probability of firing a future timer although other work exists
        self.eager_horizon = eager_horizon  # ... only timers due within this many virtual seconds
        self.net_latency = net_latency      # virtual seconds consumed by delivering one wire message
        self.net = []
        self._seq = 0
        self.steps = 0
        self.counts = {"ev": 0, "net": 0, "thr": 0, "now": 0, "tmr": 0}
        self.trace = []          # list of (kind, index-in-enabled, n-enabled)
        self.replay = list(choices) if choices is not None else None
        self.msglog = []         # (t, label)
        self.record = record
        self.chooser = None      # optional callable(enabled_labels) -> index (systematic exploration)
        self._h = hashlib.blake2b(digest_size=8)
        env.evq.reset()
        del env.thread_jobs[:]

    # -- wire side
    def post(self, chan, direction, label, deliver, delay=0.0):
        self._seq += 1
        m = Msg(chan, direction, self._seq, label, deliver)
        if delay:
            m.not_before = self.reactor.seconds() + delay
        self.net.append(m)
        return m

    # -- enabled set
    def _enabled_net(self):
        now = self.reactor.seconds()
        ready = [m for m in self.net if m.not_before <= now]
        if not ready:
            return []
        if self.profile == "free":
            out = ready
        elif self.profile == "fifo":
            out = [min(ready, key=lambda m: m.seq)]
        else:
            heads = {}
            for m in self.net:       # FIFO per (server, direction): a delayed head blocks its channel
                k = (m.chan, m.direction)
                if k not in heads or m.seq < heads[k].seq:
                    heads[k] = m
            out = [m for m in heads.values() if m.not_before <= now]
        return sorted(out, key=Msg.sortkey)

    def _timers(self):
        return sorted(self.reactor.getDelayedCalls(), key=lambda c: c.getTime())

    def _next_net_time(self):
        ts = [m.not_before for m in self.net if m.not_before > self.reactor.seconds()]
        return min(ts) if ts else None

    def enabled(self):
        """List of (kind, obj, label)."""
        out = []
        if env.evq.pending():
            out.append(("ev", None, "ev"))
        for m in self._enabled_net():
            out.append(("net", m, m.label))
        for i, j in enumerate(env.thread_jobs):
            out.append(("thr", j, "thr%d" % i))
        now = self.reactor.seconds()
        for c in self._timers():
            if c.getTime() <= now:
                out.append(("now", c, "now"))
                break
        return out

    def idle(self):
        return not self.enabled()

    # -- stepping
    def _choose(self, n, labels):
        if n == 1:
            return 0
        if self.replay is not None:
            if not self.replay:
                return 0
            i = self.replay.pop(0)
            return i if i < n else 0
        if self.chooser is not None:
            return self.chooser(labels)
        return self.rng.randrange(n)

    def step(self, allow_time=True):
        """Run one event.  Returns the kind, or None if nothing could run."""
        en = self.enabled()
        if en and not (self.eager_timers and allow_time and self.rng.random() < self.eager_timers
                       and self._future_timer_exists()):
            i = self._choose(len(en), [e[2] for e in en])
            kind, obj, label = en[i]
            if self.record:
                self.trace.append(i)
            self._h.update(label.encode("utf-8", "replace"))
            self.steps += 1
            self.counts[kind] += 1
            if kind == "ev":
                env.evq._turn()
            elif kind == "net":
                self.net.remove(obj)
                if self.net_latency:
                    # a message takes time to travel: without this, code that re-sends a request on every
                    # answer would exchange infinitely many messages in zero virtual time (Zeno artifact)
                    self.reactor.advance(self.net_latency)
                if self.record and len(self.msglog) < 20000:
                    self.msglog.append((round(self.reactor.seconds() - env.EPOCH, 3), label))
                obj.deliver()
            elif kind == "thr":
                env.thread_jobs.remove(obj)
                d, res = obj
                d.callback(res)
            elif kind == "now":
                self.reactor.advance(0)
            return kind
        if not allow_time:
            return None
        # advance virtual time to the next timer or delayed message
        nxt = None
        tm = self._timers()
        if tm:
            nxt = tm[0].getTime()
        nn = self._next_net_time()
        if nn is not None and (nxt is None or nn < nxt):
            nxt = nn
        if nxt is None:
            return None
        self.steps += 1
        self.counts["tmr"] += 1
        self._h.update(b"T")
        self.reactor.advance(max(0.0, nxt - self.reactor.seconds()))
        return "tmr"

    def _future_timer_exists(self):
        now = self.reactor.seconds()
        if any(now < m.not_before <= now + self.eager_horizon for m in self.net):
            return True
        return any(now < c.getTime() <= now + self.eager_horizon for c in self.reactor.getDelayedCalls())

    def run(self, until=None, max_steps=200000, horizon=None, allow_time=True):
        """Step until `until()` is true.  Returns 'done', 'quiescent' (nothing
        left to run / horizon of virtual time exhausted) or 'steps'."""
        t_end = None if horizon is None else self.reactor.seconds() + horizon
        n = 0
        while True:
            if until is not None and until():
                return "done"
            if n >= max_steps:
                return "steps"
            if t_end is not None and self.reactor.seconds() >= t_end and not self.enabled():
                return "quiescent"
            if t_end is not None and not self.enabled():
                # only timers remain: do not run past the horizon
                tm = self._timers()
                nn = self._next_net_time()
                cands = [x for x in ([tm[0].getTime()] if tm else []) + ([nn] if nn is not None else [])]
                if not cands or min(cands) > t_end:
                    return "quiescent"
            k = self.step(allow_time=allow_time)
            if k is None:
                return "quiescent"
            n += 1

    def settle(self, max_steps=200000):
        """Run everything that is runnable without letting virtual time pass."""
        return self.run(until=None, max_steps=max_steps, allow_time=False)

    def wait(self, d, max_steps=200000, horizon=7200.0):
        """Drive until Deferred d fires.  Returns (status, result) where status
        is 'ok' | 'err' | 'hang' | 'steps'."""
        box = []
        d.addBoth(box.append)
        st = self.run(until=lambda: bool(box), max_steps=max_steps, horizon=horizon)
        if box:
            from twisted.python.failure import Failure
            r = box[0]
            return ("err", r) if isinstance(r, Failure) else ("ok", r)
        return ("hang" if st == "quiescent" else "steps", None)

    def schedule_hash(self):
        return self._h.hexdigest()

    # -- teardown
    def cancel_timers(self):
        for c in list(self.reactor.getDelayedCalls()):
            try:
                c.cancel()
            except Exception:
                pass

    def reset(self):
        self.cancel_timers()
        self.net = []
        env.evq.reset()
        del env.thread_jobs[:]
