"""E2b: in-memory HTTP storage transport (the wiring of the repository's
``test_storage_http.HttpTestFixture``, re-created because ``allmydata.test``
cannot be imported here).

    real StorageServer(temp dir, clock=env.reactor)
      -> real HTTPServer(env.reactor, storage_server, swissnum)
      -> treq.testing.StubTreq(http_server.get_resource())       (in-memory HTTP/1.1)
      -> real StorageClient (+ StorageClientImmutables / Mutables / General)
      -> real _HTTPStorageServer (the IStorageServer adapter)     [``.istorage``]

Nothing of the code under test is replaced.  What the harness supplies:

* the global twisted Cooperator (pull producers of twisted.web, treq's body
  producers) already schedules on the installed reactor, which is the virtual
  ``env.reactor`` -- so advancing that clock drives it (the repository's
  fixture has to monkey-patch ``_theCooperator`` only because it uses a private
  ``Clock``);
* ``defer_to_thread`` jobs complete through ``env.thread_jobs``;
* ``drive(d)`` loops {StubTreq.flush, thread-job completion, one eventual-queue
  turn, reactor.advance(dt)} until the Deferred/coroutine fires.

``raw(method, path, headers, body)`` sends a hand-made request straight to the
StubTreq (no ``StorageClient`` in between): nothing is added except what treq /
twisted.web.client add themselves (Host, Connection, Accept-Encoding,
Content-Length).

    from vf import env
    from vf.http import HttpStorage, auth_value, secret_value, b32si
    h = HttpStorage(swissnum=b"abcd")
    st, res = h.drive(h.imm.create(si, {0, 1}, 100, upload_secret, renew, cancel))
    r = h.raw("GET", "/storage/v1/version", [("Authorization", auth_value(b"abcd"))])
    r.code, r.body, r.headers, r.cbor()
    h.close()                     # ALWAYS (try/finally)
"""
import base64
import os
import shutil
import tempfile

from vf import env

DEFAULT_SWISSNUM = b"vfswissnumvfswissnumvfswissnum42"
BASE_URL = "http://127.0.0.1"


# ------------------------------------------------------------ header helpers

def auth_value(swissnum, scheme=b"Tahoe-LAFS"):
    """Value of a well-formed ``Authorization`` header (http_common.swissnum_auth_header's
    format, written out independently: scheme, one space, standard base64)."""
    return scheme + b" " + base64.b64encode(swissnum)


SECRET_KINDS = {
    "renew": b"lease-renew-secret",
    "cancel": b"lease-cancel-secret",
    "upload": b"upload-secret",
    "we": b"write-enabler",
}


def secret_value(kind, value):
    """Value of one ``X-Tahoe-Authorization`` header: ``<kind> <b64(value)>``.
    ``kind`` is one of renew/cancel/upload/we or a literal bytes kind."""
    k = SECRET_KINDS.get(kind, kind)
    if isinstance(k, str):
        k = k.encode("ascii")
    return k + b" " + base64.b64encode(value)


def secret_headers(**kinds):
    """[(name, value), ...] of X-Tahoe-Authorization headers, e.g.
    secret_headers(upload=b"..", renew=b"..", cancel=b"..")."""
    return [("X-Tahoe-Authorization", secret_value(k, v)) for k, v in kinds.items()]


_B32 = "abcdefghijklmnopqrstuvwxyz234567"


def b32si(si):
    """URL path form of a storage index: lower-case unpadded RFC 4648 base32."""
    bits = "".join("{:08b}".format(b) for b in si)
    bits += "0" * (-len(bits) % 5)
    return "".join(_B32[int(bits[i:i + 5], 2)] for i in range(0, len(bits), 5))


def cbor_dumps(obj):
    import cbor2
    return cbor2.dumps(obj)


def cbor_loads(data):
    import cbor2
    return cbor2.loads(data)


class RawResponse(object):
    """What a hand-made request got back."""

    def __init__(self, status, code=None, headers=None, body=b"", failure=None):
        self.status = status          # 'ok' (a response arrived) | 'err' (transport-level failure) | 'steps'
        self.code = code
        self.headers = headers or {}  # lower-case name -> [values]
        self.body = body
        self.failure = failure

    def cbor(self):
        return cbor_loads(self.body)

    def __repr__(self):
        return "<RawResponse %s %s %d bytes>" % (self.status, self.code, len(self.body or b""))


# ------------------------------------------------------------------ harness

class HttpStorage(object):
    """One storage server reachable over in-memory HTTP."""

    def __init__(self, swissnum=DEFAULT_SWISSNUM, nodeid=None, storage_server=None,
                 tmp=None, dt=0.001, virtual_time=True, **server_kw):
        from allmydata.storage.server import StorageServer
        from allmydata.storage.http_server import HTTPServer
        from allmydata.storage.http_client import (
            StorageClient, StorageClientImmutables, StorageClientMutables, StorageClientGeneral)
        from treq.testing import StubTreq
        if virtual_time:
            try:
                from vf.checks._storage import install_virtual_time
                install_virtual_time()
            except Exception:
                pass
        self.swissnum = swissnum
        self.dt = dt
        self._own_tmp = None
        if storage_server is None:
            if tmp is None:
                tmp = self._own_tmp = tempfile.mkdtemp(prefix="vf-")
            self.tmp = tmp
            self.storedir = os.path.join(tmp, "storage")
            self.nodeid = nodeid or (b"\x00" * 20)
            storage_server = StorageServer(self.storedir, self.nodeid, clock=env.reactor, **server_kw)
        else:
            self.tmp = tmp
            self.storedir = storage_server.storedir
            self.nodeid = storage_server.my_nodeid
        self.ss = storage_server
        self.http_server = HTTPServer(env.reactor, self.ss, swissnum)
        self.stub = StubTreq(self.http_server.get_resource())
        self._StorageClient = StorageClient
        self.client = self.make_client(swissnum)
        self.imm = StorageClientImmutables(self.client)
        self.mut = StorageClientMutables(self.client)
        self.gen = StorageClientGeneral(self.client)
        self._istorage = None
        self.steps = 0
        self.requests = 0

    # -- clients
    def make_client(self, swissnum):
        """A further real StorageClient on the same in-memory connection (e.g. with a wrong swissnum)."""
        from hyperlink import DecodedURL
        return self._StorageClient(DecodedURL.from_text(BASE_URL), swissnum,
                                   treq=self.stub, pool=None, clock=env.reactor)

    @property
    def istorage(self):
        """The real IStorageServer adapter (_HTTPStorageServer) over ``self.client``."""
        if self._istorage is None:
            from allmydata.storage_client import _HTTPStorageServer
            self._istorage = _HTTPStorageServer.from_http_client(self.client)
        return self._istorage

    # -- driving
    def pump_once(self):
        """One round of everything that can run without a Deferred to wait for.
        Returns True if anything ran."""
        ran = False
        self.stub.flush()
        while env.thread_jobs:
            d, res = env.thread_jobs.pop(0)
            d.callback(res)
            ran = True
        if env.evq.pending():
            env.evq._turn()
            ran = True
        return ran

    def drive(self, d, max_steps=20000, dt=None):
        """Run until the Deferred / coroutine ``d`` fires.
        Returns ('ok', value) | ('err', Failure) | ('steps', None)."""
        from twisted.internet.defer import ensureDeferred, Deferred
        from twisted.python.failure import Failure
        if not isinstance(d, Deferred):
            d = ensureDeferred(d)
        box = []
        d.addBoth(box.append)
        n = 0
        dt = self.dt if dt is None else dt
        while not box and n < max_steps:
            n += 1
            self.pump_once()
            if box:
                break
            env.reactor.advance(dt)
        self.steps += n
        if not box:
            return ("steps", None)
        r = box[0]
        return ("err", r) if isinstance(r, Failure) else ("ok", r)

    def settle(self, rounds=3):
        """Let stragglers (response-finished notifications, cancelled timers) run."""
        for _ in range(rounds):
            self.pump_once()
            env.reactor.advance(self.dt)

    # -- hand-made requests
    def raw(self, method, path, headers=(), body=None, max_steps=20000):
        """Send exactly this request.  ``headers``: iterable of (name, value)
        pairs (str or bytes; repeated names give repeated header lines).
        Returns RawResponse."""
        from twisted.web.http_headers import Headers
        import treq
        hs = Headers()
        for k, v in headers:
            hs.addRawHeader(k, v)
        self.requests += 1
        kw = {}
        if body is not None:
            kw["data"] = body
        url = path if path.startswith("http") else BASE_URL + path

        async def go():
            resp = await self.stub.request(method, url, headers=hs, **kw)
            data = await treq.content(resp)
            return resp, data

        st, res = self.drive(go(), max_steps=max_steps)
        if st == "ok":
            resp, data = res
            hd = {}
            for k, vs in resp.headers.getAllRawHeaders():
                hd[k.decode("latin-1").lower()] = [v.decode("latin-1") for v in vs]
            return RawResponse("ok", resp.code, hd, data)
        return RawResponse(st, failure=res)

    # -- observation
    def uploads_in_progress(self):
        """(informational; private attributes, tolerant of refactoring)
        sorted [(storage index, share number, upload secret)] tracked by the HTTP server."""
        out = []
        try:
            for si, up in self.http_server._uploads._uploads.items():
                for shnum in up.shares:
                    out.append((si, shnum, up.upload_secrets.get(shnum)))
        except Exception:
            return None
        return sorted(out)

    def open_writers(self):
        """(informational) sorted incoming paths of the storage server's open BucketWriters."""
        try:
            return sorted(os.path.relpath(p, self.storedir) for p in self.ss._bucket_writers)
        except Exception:
            return None

    # -- teardown
    def close(self):
        for dc in list(env.reactor.getDelayedCalls()):
            if dc.active():
                try:
                    dc.cancel()
                except Exception:
                    pass
        del env.thread_jobs[:]
        env.evq.reset()
        if self._own_tmp:
            shutil.rmtree(self._own_tmp, ignore_errors=True)
