"""E2/web: the real web API of a VGrid client, driven in memory.

    from vf import env                          # first, as always
    from vf.grid import VGrid
    from vf import web

    g = VGrid(nservers=5, seed=1)
    c = g.make_client(k=3, happy=1, n=5)
    stub = web.mount(g, c)                      # real Root + real TahoeLAFSSite behind treq's StubTreq
    status, headers, body = web.http(g, stub, "GET", "/uri/" + web.q(cap), headers={"Range": "bytes=0-9"})
    status, headers, body = web.http(g, stub, "PUT", "/uri/%s/name?t=uri" % web.q(dircap), body=childcap)
    status, headers, body = web.http(g, stub, "POST", "/uri/%s?t=upload" % web.q(dircap),
                                     form={"file": ("name.txt", b"data"), "replace": "true"})
    g.close()

What is real: `allmydata.webish.WebishServer` (it builds the real `allmydata.web.root.Root(client,
clock=env.reactor, now_fn=env.reactor.seconds)`, the real `OphandleTable` at /operations and the real
`TahoeLAFSSite`/`TahoeLAFSRequest`, i.e. real twisted.web Request objects with tahoe's form parsing
(`req.fields`), attached to the client as its "webish" service exactly like `_Client.init_web`).  Its
TCP listener lands on the virtual reactor (MemoryReactor records it; nothing is opened).
What is ours: the transport.  `treq.testing.StubTreq` connects a real twisted.web.client.Agent to the
site through twisted.test.iosim; we only swap StubTreq's plain `Site` for the client's TahoeLAFSSite.

Driving: a response only makes progress when the grid scheduler runs.  `http()` alternates
`stub.flush()` (moves bytes between the HTTP client and server protocols) with `g.sched.step()` until
the response Deferred fires, then reads the body (`treq.content`) the same way, so streaming producers
(FileDownloader, stream-manifest, stream-deep-check) work.  Virtual time only passes when nothing else
is runnable; a request that makes no progress within `horizon` virtual seconds is reported as
status "hang" (never raises).

Authorisation: the web API has no CSRF/auth token for /uri, /file, /named, /operations (capabilities are the
authority); only /private/* needs `Authorization: tahoe-lafs <client.get_auth_token()>` - use
`web.auth_header(c)`.

`stub.last` describes the most recent request as seen by the server side: `resource_wrote` is the number
of body bytes the resource handed to IRequest.write() (twisted.web silently drops them for HEAD, so this
is the only place a "HEAD produced a body" defect is visible), `server_code`/`server_headers` what the
resource had set when the first byte was written, `wire_calls` the number of storage-server messages the
request caused, `steps` scheduler steps.

Known limit: `GET /` (welcome page, `?t=json`) needs `IServer.get_connection_status()`, which vf.grid.VIServer
does not provide -> 500.  Everything under /uri, /file, /named, /operations, /status, /statistics works.
"""
from urllib.parse import quote as _quote

from vf import env

from twisted.python.failure import Failure
from twisted.web.http_headers import Headers

BASE = "http://127.0.0.1:3456"


def q(cap):
    """URL-quote a capability (bytes or str) or a child name for use in a path segment."""
    if isinstance(cap, bytes):
        return _quote(cap, safe="")
    return _quote(cap.encode("utf-8"), safe="")


def auth_header(client):
    """Header dict that opens /private/* (web/private.py TokenChecker)."""
    return {"Authorization": b"tahoe-lafs " + client.get_auth_token()}


class _Last(dict):
    __getattr__ = dict.get


def mount(g, client):
    """Attach the real WebishServer (Root, /operations, TahoeLAFSSite) to a VGrid client and return a
    StubTreq wired to that site.  One mount per client; the result is cached on the client."""
    stub = getattr(client, "_vf_stub", None)
    if stub is not None:
        return stub
    from treq.testing import StubTreq
    from allmydata import webish

    try:
        ws = client.getServiceNamed("webish")
    except KeyError:
        if not client.config.get_private_config("api_auth_token", default=None):
            client._create_auth_token()
        tmp = client._get_tempdir()                     # inside the grid's temp dir, removed by g.close()
        ws = webish.WebishServer(client, "tcp:0", webish.anonymous_tempfile_factory(tmp),
                                 clock=env.reactor, now_fn=env.reactor.seconds)
        ws.setServiceParent(client)                     # "listens" on the virtual reactor only
    site = ws.site
    last = _Last(resource_wrote=0, wire_calls=0, steps=0, method=None)

    base_factory = site.requestFactory

    class RecordingRequest(base_factory):
        """TahoeLAFSRequest that counts the body bytes the resource tries to send."""

        def write(self, data):
            if not self.startedWriting:       # what the resource decided, before twisted.web/the client touch it
                last["server_code"] = self.code
                last["server_headers"] = {k.decode("latin-1").lower(): v[-1].decode("latin-1")
                                          for k, v in self.responseHeaders.getAllRawHeaders()}
            last["resource_wrote"] += len(data)
            return base_factory.write(self, data)

    site.requestFactory = RecordingRequest
    stub = StubTreq(ws.root)
    stub._agent._serverFactory = site                   # real TahoeLAFSSite instead of a plain Site
    stub.root = ws.root
    stub.site = site
    stub.webish = ws
    stub.client = client
    stub.last = last
    client._vf_stub = stub
    return stub


def drive(g, stub, d, horizon=3600.0, max_steps=400000):
    """Run flush/scheduler turns until Deferred d fires.  -> ("ok", result) | ("err", Failure) |
    ("hang", None) | ("steps", None)"""
    box = []
    d.addBoth(box.append)
    sched = g.sched
    t_end = env.reactor.seconds() + horizon
    n = 0
    while not box:
        stub.flush()
        if box:
            break
        if n >= max_steps:
            return "steps", None
        n += 1
        if sched.step(allow_time=False) is not None:
            continue
        # nothing runnable: one more flush may be all that is missing, else let virtual time pass
        stub.flush()
        if box:
            break
        if sched.enabled():
            continue
        if env.reactor.seconds() >= t_end or sched.step() is None:
            return "hang", None
    stub.last["steps"] += n
    r = box[0]
    return ("err", r) if isinstance(r, Failure) else ("ok", r)


def multipart(form, boundary=b"vfboundary7MA4YWxkTrZu0gW"):
    """form: {name: str|bytes value  or  (filename|None, bytes content)} -> (content_type, body)"""
    out = []
    for name, val in form.items():
        out.append(b"--" + boundary)
        if isinstance(val, tuple):
            fn, content = val
            disp = 'form-data; name="%s"' % name
            if fn is not None:
                disp += '; filename="%s"' % fn
            out.append(b"Content-Disposition: " + disp.encode("utf-8"))
            out.append(b"Content-Type: application/octet-stream")
        else:
            content = val.encode("utf-8") if isinstance(val, str) else val
            out.append(b'Content-Disposition: form-data; name="%s"' % name.encode("utf-8"))
        out.append(b"")
        out.append(content)
    out.append(b"--" + boundary + b"--")
    out.append(b"")
    return b"multipart/form-data; boundary=" + boundary, b"\r\n".join(out)


def http(g, stub, method, path, headers=None, body=None, form=None, horizon=3600.0):
    """One HTTP exchange with the client's web API.

    path: absolute path + query ("/uri/URI%3A...?t=json"), already quoted (see q()).
    headers: {name: str|bytes}; body: bytes|None; form: dict for a multipart/form-data POST (see multipart()).
    -> (status:int, headers:{lowercase str name: str value (last one wins)}, body:bytes)
       status is "hang"/"steps"/"err" (body = diagnostic bytes) when no response could be obtained; redirects
       are returned as they are (3xx + location), never followed."""
    hdrs = Headers()
    for k, v in (headers or {}).items():
        hdrs.addRawHeader(k, v)
    if form is not None:
        ctype, body = multipart(form)
        hdrs.setRawHeaders("Content-Type", [ctype])
    last = stub.last
    last.update(resource_wrote=0, steps=0, method=method, wire_calls=0, server_code=None, server_headers={})
    calls0 = g._callno
    url = BASE + path
    kw = {}
    if body is not None:
        kw["data"] = body
    d = stub.request(method, url, headers=hdrs, allow_redirects=False, **kw)
    st, resp = drive(g, stub, d, horizon=horizon)
    if st != "ok":
        last["wire_calls"] = g._callno - calls0
        return st, {}, (repr(resp.value).encode("utf-8", "replace") if st == "err" else b"")
    st, content = drive(g, stub, stub.content(resp), horizon=horizon)
    last["wire_calls"] = g._callno - calls0
    rh = {}
    for k, vs in resp.headers.getAllRawHeaders():
        rh[k.decode("latin-1").lower()] = vs[-1].decode("latin-1")
    if rh.get("content-encoding") == "":
        del rh["content-encoding"]            # artifact of treq's ContentDecoderAgent, the server sent none
    if "content-length" not in rh and isinstance(resp.length, int):
        # twisted's client parser files Content-Length under connection headers; resp.length is its value
        rh["content-length"] = str(resp.length)
    if st != "ok":
        return st, rh, (repr(content.value).encode("utf-8", "replace") if st == "err" else b"")
    stub.flush()
    return resp.code, rh, content
