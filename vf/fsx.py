"""E3: syscall-granular crash-point injector (in-process) + real-kill server (strace).

Model of a crash: the process is SIGKILLed.  The kernel keeps every COMPLETED
write(2) / ftruncate / rename / unlink / mkdir / rmdir / creat; everything still
in Python's user-space file buffers is lost.

In-process realisation
----------------------
``install()`` replaces, in every module that writes below a storage / helper
directory (MODULES), the module-global ``open`` and the module-global ``os`` by
intercepting stand-ins.  They are pass-through unless a session is active::

    with Fsx(root=storedir, crash_at=n) as fx:     # n = None: count only
        try:
            ss.add_lease(...)                      # the real code
        except Crash:
            pass
    fx.ops       # [(kind, relpath, detail)] of the mutations that were COMPLETED
    fx.crashed   # True when operation index n was reached

* ``open`` returns ``io.BufferedRandom / BufferedWriter / TextIOWrapper`` (the
  real CPython classes, real buffer size) over ``RawFile(io.FileIO)``, whose
  ``write`` / ``truncate`` are the counted operations: CPython's own buffering
  logic decides when a ``write(2)`` happens, exactly like in a real process.
* ``os.rename/replace/unlink/remove/rmdir/mkdir`` are counted; ``os.makedirs``
  is re-expressed through the counted ``mkdir`` (one op per directory level).
* an ``open`` that may create or truncate a file is the counted op ``creat``.
* operation index n (0-based, over COMPLETED mutations below ``root``): when the
  session has completed n operations and the next one is attempted, ``Crash``
  (a BaseException) is raised *instead* and the session is dead: every later
  mutation from that session -- including buffer flushes of files that are
  closed during unwinding or by the garbage collector -- silently does nothing.
  ``crash_at == fx.n_total`` therefore means "no crash".
* a system call that fails (mkdir EEXIST, rmdir ENOTEMPTY, ...) mutates
  nothing and is not an operation (it is still counted in ``fx.syscalls`` for
  the real-kill arithmetic).

Real realisation (fidelity)
---------------------------
``KillServer`` runs ONE python process under ``strace -f`` (so the import cost
is paid once); for every job it forks a child that executes a handler under a
counting session.  Two uses:

* trace jobs: the child brackets the operation with marker writes; after
  ``close()`` the real system-call list of each job is available through
  ``trace_ops(jobid, root)`` in the same (kind, relpath, detail) vocabulary as
  ``Fsx.ops`` -> ``compare_ops``.
* kill jobs: strace is started with ``-e inject=<syscall>:signal=KILL:when=K``
  (per process counters, the signal is delivered on ENTERING the K-th call, so
  the K-th call does not happen).  The child pads with harmless calls of the
  same system call so that the operation with index n is its K-th call: the
  kernel really kills the process at that point and the surviving directory can
  be compared with the in-process prediction.

Assumptions (reported by the checks): a single write(2) to a regular file is
not torn by SIGKILL; no power loss (page cache survives), so no fsync ordering
is modelled.
"""
import io
import json
import os
import re
import subprocess
import sys
import tempfile
import time
import traceback

_real_open = io.open
_real_os = os

KINDS = ("creat", "write", "truncate", "rename", "unlink", "mkdir", "rmdir")

# modules whose module-global `open` / `os` are intercepted
MODULES = (
    "allmydata.storage.immutable",
    "allmydata.storage.mutable",
    "allmydata.storage.shares",
    "allmydata.storage.server",
    "allmydata.storage.crawler",
    "allmydata.storage.expirer",
    "allmydata.util.fileutil",
    "allmydata.immutable.offloaded",
    "twisted.python.filepath",       # crawler/expirer state files go through FilePath.open/remove
)


class Crash(BaseException):
    """The simulated process died at this file-system operation."""


_CURRENT = [None]     # active session or None


def current():
    return _CURRENT[0]


# ------------------------------------------------------------------ session

class Fsx(object):
    def __init__(self, root=None, crash_at=None, on_crash=None, kill_at=None, kill_pad=None):
        self.root = os.path.realpath(root) if root else None
        self.crash_at = crash_at
        self.on_crash = on_crash
        self.kill_at = kill_at        # real-kill mode (child of KillServer): pad before op index n
        self.kill_pad = kill_pad      # fn(kind, already_made_syscalls_of_that_kind)
        self.ops = []                 # completed mutations (kind, relpath, detail)
        self.n = 0
        self.dead = False
        self.crashed = False
        self.crash_op = None          # the operation that was NOT performed
        self.syscalls = dict.fromkeys(KINDS, 0)   # attempted calls per kind (failed ones included)
        self._prev = None
        self.jobid = None             # child of KillServer: job number for the marker writes
        self._kill_abs = None

    # -- child side of KillServer: bracket the operation proper
    def begin_op(self):
        """Marker write + arm the real kill: kill_at counts operations from here."""
        if self.jobid is not None:
            mark(self.jobid, "BEGIN")
            self.syscalls["write"] += 1
        if self.kill_at is not None:
            self._kill_abs = self.n + self.kill_at

    def end_op(self):
        if self.jobid is not None:
            mark(self.jobid, "END")
            self.syscalls["write"] += 1

    # -- context manager
    def __enter__(self):
        install()
        self._prev = _CURRENT[0]
        _CURRENT[0] = self
        return self

    def __exit__(self, et, ev, tb):
        _CURRENT[0] = self._prev
        return False

    @property
    def n_total(self):
        return self.n

    def tracked(self, path):
        if self.root is None:
            return True
        try:
            p = os.path.abspath(os.fspath(path))
        except TypeError:
            return False
        if isinstance(p, bytes):
            p = os.fsdecode(p)
        return p == self.root or p.startswith(self.root + os.sep) or \
            os.path.realpath(p).startswith(self.root + os.sep)

    def rel(self, path):
        p = os.path.abspath(os.fspath(path))
        if isinstance(p, bytes):
            p = os.fsdecode(p)
        if self.root and not p.startswith(self.root):
            p = os.path.realpath(p)
        if self.root and p.startswith(self.root):
            return os.path.relpath(p, self.root)
        return p

    def gate(self, kind, path, detail, do, dead_result=None):
        """Run one mutation `do()` as counted operation."""
        if not self.tracked(path):          # other components of the same python process (never dead)
            self.syscalls[kind] += 1
            return do()
        if self.dead:
            return dead_result
        op = (kind, self.rel(path), detail)
        if self.crash_at is not None and self.n == self.crash_at:
            self.dead = True
            self.crashed = True
            self.crash_op = op
            if self.on_crash is not None:
                self.on_crash(self)
            raise Crash("crash before op %d: %r" % (self.n, op))
        if self._kill_abs is not None and self.n == self._kill_abs and self.kill_pad is not None:
            pad, self.kill_pad = self.kill_pad, None
            pad(kind, self.syscalls[kind])     # the next call of this kind is the one strace kills
        self.syscalls[kind] += 1
        try:
            res = do()
        except OSError:
            raise                      # a failed call mutates nothing: not an operation
        self.n += 1
        self.ops.append(op)
        return res

    def kinds(self):
        out = {}
        for k, _p, _d in self.ops:
            out[k] = out.get(k, 0) + 1
        return out


# ------------------------------------------------------------------- files

class RawFile(io.FileIO):
    """FileIO whose write()/truncate() are counted operations of a session."""

    def __init__(self, fx, vpath, rawmode, realpath=None):
        self._fx = fx
        self._vpath = vpath
        self._append = "a" in rawmode
        io.FileIO.__init__(self, realpath if realpath is not None else vpath, rawmode)

    def write(self, b):
        n = memoryview(b).nbytes
        fx = self._fx
        if fx.dead:
            return n
        if self._append:
            off = "append"
        else:
            try:
                off = os.lseek(self.fileno(), 0, os.SEEK_CUR)
            except OSError:
                off = None
        return fx.gate("write", self._vpath, (off, n), lambda: io.FileIO.write(self, b), dead_result=n)

    def truncate(self, size=None):
        fx = self._fx
        if size is None:
            size = self.tell()
        if fx.dead:
            return size
        return fx.gate("truncate", self._vpath, size, lambda: io.FileIO.truncate(self, size),
                       dead_result=size)


def _fsx_open(file, mode="r", buffering=-1, encoding=None, errors=None, newline=None,
              closefd=True, opener=None):
    fx = _CURRENT[0]
    if fx is None or not isinstance(file, (str, bytes, os.PathLike)) or opener is not None:
        return _real_open(file, mode, buffering, encoding, errors, newline, closefd, opener)
    modes = set(mode)
    creating, reading, writing = "x" in modes, "r" in modes, "w" in modes
    appending, updating, text, binary = "a" in modes, "+" in modes, "t" in modes, "b" in modes
    if not (creating or writing or appending or updating) or not fx.tracked(file):
        return _real_open(file, mode, buffering, encoding, errors, newline, closefd, opener)
    rawmode = (("x" if creating else "") + ("r" if reading else "") + ("w" if writing else "")
               + ("a" if appending else "") + ("+" if updating else ""))
    path = os.fspath(file)
    realpath = None
    if creating or writing or appending:          # O_CREAT and/or O_TRUNC: a mutation by itself
        if fx.dead:
            realpath = os.devnull
            rawmode = rawmode.replace("x", "w")
        else:
            def _creat():
                if creating and os.path.lexists(path):
                    raise FileExistsError(17, "File exists", path)
                return None
            fx.gate("creat", path, rawmode, _creat)
    raw = RawFile(fx, path, rawmode, realpath)
    result = raw
    try:
        line_buffering = False
        if buffering == 1 or (buffering < 0 and raw.isatty()):
            buffering = -1
            line_buffering = True
        if buffering < 0:
            buffering = raw._blksize          # what the C implementation of io.open does
        if buffering == 0:
            if binary:
                return result
            raise ValueError("can't have unbuffered text I/O")
        if updating:
            buf = io.BufferedRandom(raw, buffering)
        elif creating or writing or appending:
            buf = io.BufferedWriter(raw, buffering)
        else:
            buf = io.BufferedReader(raw, buffering)
        result = buf
        if binary:
            return result
        txt = io.TextIOWrapper(buf, io.text_encoding(encoding), errors, newline, line_buffering)
        result = txt
        txt.mode = mode
        return result
    except BaseException:
        result.close()
        raise


class _OsProxy(object):
    """`os` as seen by an intercepted module."""

    def __init__(self, real):
        self.__dict__["_real"] = real

    def __getattr__(self, name):
        return getattr(self.__dict__["_real"], name)

    def __setattr__(self, name, value):
        setattr(self.__dict__["_real"], name, value)

    def _do(self, kind, path, detail, fn):
        fx = _CURRENT[0]
        if fx is None:
            return fn()
        return fx.gate(kind, path, detail, fn)

    def rename(self, src, dst, **kw):
        r = self.__dict__["_real"]
        fx = _CURRENT[0]
        detail = fx.rel(dst) if fx is not None and not fx.dead else None
        return self._do("rename", src, detail, lambda: r.rename(src, dst, **kw))

    def replace(self, src, dst, **kw):
        r = self.__dict__["_real"]
        fx = _CURRENT[0]
        detail = fx.rel(dst) if fx is not None and not fx.dead else None
        return self._do("rename", src, detail, lambda: r.replace(src, dst, **kw))

    def unlink(self, path, **kw):
        r = self.__dict__["_real"]
        return self._do("unlink", path, None, lambda: r.unlink(path, **kw))

    def remove(self, path, **kw):
        r = self.__dict__["_real"]
        return self._do("unlink", path, None, lambda: r.remove(path, **kw))

    def rmdir(self, path, **kw):
        r = self.__dict__["_real"]
        return self._do("rmdir", path, None, lambda: r.rmdir(path, **kw))

    def mkdir(self, path, mode=0o777, **kw):
        r = self.__dict__["_real"]
        return self._do("mkdir", path, None, lambda: r.mkdir(path, mode, **kw))

    def makedirs(self, name, mode=0o777, exist_ok=False):
        # os.makedirs re-expressed through the counted mkdir (same algorithm as Lib/os.py)
        if _CURRENT[0] is None:
            return self.__dict__["_real"].makedirs(name, mode, exist_ok)
        path = os.path
        head, tail = path.split(name)
        if not tail:
            head, tail = path.split(head)
        if head and tail and not path.exists(head):
            try:
                self.makedirs(head, exist_ok=exist_ok)
            except FileExistsError:
                pass
            cdir = os.curdir
            if isinstance(tail, bytes):
                cdir = bytes(os.curdir, "ASCII")
            if tail == cdir:
                return
        try:
            self.mkdir(name, mode)
        except OSError:
            if not exist_ok or not path.isdir(name):
                raise


_installed = {}     # module name -> (had_open, old_open, old_os)


def install(modules=MODULES):
    """Idempotent.  Pass-through while no session is active."""
    import importlib
    for name in modules:
        if name in _installed:
            continue
        try:
            mod = importlib.import_module(name)
        except ImportError:
            continue
        had_open = "open" in mod.__dict__
        old_open = mod.__dict__.get("open")
        old_os = mod.__dict__.get("os")
        mod.open = _fsx_open
        if old_os is not None and not isinstance(old_os, _OsProxy):
            mod.os = _OsProxy(old_os)
        _installed[name] = (had_open, old_open, old_os)


def uninstall():
    for name, (had_open, old_open, old_os) in list(_installed.items()):
        mod = sys.modules.get(name)
        if mod is None:
            continue
        if had_open:
            mod.open = old_open
        else:
            mod.__dict__.pop("open", None)
        if old_os is not None and isinstance(mod.__dict__.get("os"), _OsProxy) \
                and mod.os.__dict__["_real"] is old_os:
            mod.os = old_os
    _installed.clear()


# ------------------------------------------------------------- enumeration

def count_ops(run, root):
    """Execute run() under a counting session; returns the session."""
    fx = Fsx(root=root)
    with fx:
        run()
    return fx


def run_with_crash(run, root, n, on_crash=None):
    """Execute run() with a crash before operation index n.  Returns the session
    (fx.crashed False means the operation finished with fewer than n+1 ops)."""
    fx = Fsx(root=root, crash_at=n, on_crash=on_crash)
    with fx:
        try:
            run()
        except Crash:
            pass
    return fx


# ---------------------------------------------------------- strace parsing

SYSCALLS = {   # kind -> candidate system call names (filtered by what this architecture has)
    "write": ["write", "pwrite64"],
    "truncate": ["ftruncate"],
    "rename": ["rename", "renameat", "renameat2"],
    "unlink": ["unlink", "unlinkat"],
    "mkdir": ["mkdir", "mkdirat"],
    "rmdir": ["rmdir"],
    "creat": ["openat", "open", "creat"],
}
# a child is killed on ENTERING its K-th call of the kind (it pads up to there); K bounds the number of
# calls of that kind a job may make, the padding costs ~0.5 ms per call under ptrace
KILL_K = {"write": 500, "truncate": 100, "rename": 100, "unlink": 150, "mkdir": 100, "rmdir": 100}
# the one system call CPython issues for each kind on this platform (kill jobs count it)
KILL_SYSCALL = {"write": "write", "truncate": "ftruncate", "rename": "rename", "unlink": "unlink",
                "mkdir": "mkdir", "rmdir": "rmdir"}

_LINE = re.compile(r"^(\d+)\s+(\w+)\((.*)\)\s+=\s+(-?\d+|\?)(.*)$")
_QUOTED = re.compile(r'"((?:[^"\\]|\\.)*)"')
_FDPATH = re.compile(r"^(-?\d+)<([^>]*)>")


def _unq(s):
    try:
        return s.encode("latin-1").decode("unicode_escape")
    except Exception:
        return s


def parse_strace(text):
    """-> list of dict(pid, call, args, ret, paths, fdpath)"""
    out = []
    for line in text.splitlines():
        m = _LINE.match(line)
        if not m:
            continue
        pid, call, args, ret, _rest = m.groups()
        rec = {"pid": int(pid), "call": call, "args": args, "ret": None if ret == "?" else int(ret)}
        fm = _FDPATH.match(args)
        rec["fdpath"] = fm.group(2) if fm else None
        rec["paths"] = [_unq(x) for x in _QUOTED.findall(args)]
        out.append(rec)
    return out


def strace_to_ops(recs, root):
    """Successful mutations below root, in Fsx.ops vocabulary (offset unknown -> None)."""
    root = os.path.realpath(root)

    def under(p):
        return p is not None and (p == root or p.startswith(root + os.sep))

    def rel(p):
        return os.path.relpath(p, root)
    ops = []
    for r in recs:
        c, ret = r["call"], r["ret"]
        if ret is None or ret < 0:
            continue
        if c in ("write", "pwrite64"):
            if under(r["fdpath"]):
                ops.append(("write", rel(r["fdpath"]), (None, ret)))
        elif c == "ftruncate":
            if under(r["fdpath"]):
                size = int(r["args"].rsplit(",", 1)[1].strip())
                ops.append(("truncate", rel(r["fdpath"]), size))
        elif c in ("rename", "renameat", "renameat2"):
            ps = [p for p in r["paths"]]
            if len(ps) >= 2 and under(os.path.abspath(ps[0])):
                ops.append(("rename", rel(os.path.abspath(ps[0])), rel(os.path.abspath(ps[1]))))
        elif c in ("unlink", "unlinkat"):
            if r["paths"] and under(os.path.abspath(r["paths"][0])):
                kind = "rmdir" if "AT_REMOVEDIR" in r["args"] else "unlink"
                ops.append((kind, rel(os.path.abspath(r["paths"][0])), None))
        elif c in ("mkdir", "mkdirat"):
            if r["paths"] and under(os.path.abspath(r["paths"][0])):
                ops.append(("mkdir", rel(os.path.abspath(r["paths"][0])), None))
        elif c == "rmdir":
            if r["paths"] and under(os.path.abspath(r["paths"][0])):
                ops.append(("rmdir", rel(os.path.abspath(r["paths"][0])), None))
        elif c in ("openat", "open", "creat"):
            if ("O_CREAT" in r["args"] or "O_TRUNC" in r["args"] or c == "creat") and r["paths"] \
                    and under(os.path.abspath(r["paths"][0])):
                ops.append(("creat", rel(os.path.abspath(r["paths"][0])), None))
    return ops


def normalise_ops(ops):
    """What both realisations can be compared on: kind, path, size (write offsets and the
    python open mode are not visible in strace)."""
    out = []
    for k, p, d in ops:
        if k == "write":
            d = d[1]
        elif k == "creat":
            d = None
        out.append((k, p, d))
    return out


def compare_ops(inproc_ops, real_ops):
    """None when identical, else a short description of the first difference."""
    a, b = normalise_ops(inproc_ops), normalise_ops(real_ops)
    if a == b:
        return None
    for i, (x, y) in enumerate(zip(a, b)):
        if x != y:
            return "op %d: in-process %r, strace %r" % (i, x, y)
    return "length: in-process %d ops, strace %d ops (first extra: %r)" % (
        len(a), len(b), (a[len(b):] or b[len(a):])[0])


# --------------------------------------------------------------- KillServer

MARK = "FSX-MARK"


def strace_available():
    try:
        r = subprocess.run(["strace", "-qq", "-e", "trace=write", "-o", os.devnull, "true"],
                           capture_output=True, timeout=30)
        return r.returncode == 0
    except Exception:
        return False


def _valid_syscalls(names):
    ok = []
    for n in names:
        try:
            r = subprocess.run(["strace", "-qq", "-e", "trace=" + n, "-o", os.devnull, "true"],
                               capture_output=True, timeout=30)
            if r.returncode == 0:
                ok.append(n)
        except Exception:
            pass
    return ok


class KillServer(object):
    """One python process under `strace -f`; one forked child per job.

    handler: "package.module:function" -- called in the child as function(job, fx) where fx is
    a counting Fsx on job["root"] (not yet entered).  The handler does everything that touches
    the file system inside `with fx:` and brackets the operation proper with fx.begin_op() /
    fx.end_op() (marker writes for the trace; job["kill_at"] = operation index, counted from
    begin_op(), at which the child pads and is really killed by strace).
    """

    def __init__(self, handler, env_extra=None, startup_timeout=240, tmpdir=None):
        self.tmp = tempfile.mkdtemp(prefix="vf-fsx-", dir=tmpdir)
        self.tracefile = os.path.join(self.tmp, "strace.out")
        self.scratch = os.path.join(self.tmp, "scratch")
        names = []
        for k in KINDS:
            names += SYSCALLS[k]
        self.names = _valid_syscalls(names + ["writev"])
        env_ = dict(os.environ, PYTHONHASHSEED="0")
        env_.update(env_extra or {})
        vf_root = os.path.dirname(os.path.dirname(os.path.abspath(__file__)))
        env_["PYTHONPATH"] = vf_root + os.pathsep + env_.get("PYTHONPATH", "")
        self.errfile = open(os.path.join(self.tmp, "stderr.txt"), "w+")
        # the server imports everything un-traced (fast), then strace attaches to it (-p) and follows
        # the children it forks; the server itself never calls write(2) (it answers with writev)
        self.proc = subprocess.Popen([sys.executable, "-B", "-m", "vf.fsx", "--serve", handler,
                                      "--scratch", self.scratch],
                                     stdin=subprocess.PIPE, stdout=subprocess.PIPE,
                                     stderr=self.errfile, cwd=vf_root, env=env_, text=True)
        self.strace = None
        self.jobs = {}
        self._next = 0
        self._recs = None
        line = self._readline(startup_timeout)
        if not line.startswith("READY"):
            err = self._stderr_tail()
            self.close()
            raise RuntimeError("fsx server did not start: %r %s" % (line, err))
        cmd = ["strace", "-f", "-qq", "-y", "-s", "40", "-e", "trace=" + ",".join(self.names)]
        for kind, sc in KILL_SYSCALL.items():
            if sc in self.names:
                cmd += ["-e", "inject=%s:signal=KILL:when=%d" % (sc, KILL_K[kind])]
        cmd += ["-o", self.tracefile, "-p", str(self.proc.pid)]
        self.strace = subprocess.Popen(cmd, stdin=subprocess.DEVNULL, stdout=self.errfile, stderr=self.errfile)
        # wait until strace really is attached: a marker of the server must show up in the log
        deadline = time.time() + startup_timeout
        attached = False
        k = 0
        while time.time() < deadline and self.strace.poll() is None:
            k += 1
            tok = "FSX-SYNC-%d-%d" % (os.getpid(), k)
            self.proc.stdin.write("SYNC %s\n" % tok)
            self.proc.stdin.flush()
            if not self._readline(30).startswith("SYNCED"):
                break
            time.sleep(0.05)
            try:
                with open(self.tracefile, "r", errors="replace") as f:
                    if tok in f.read():
                        attached = True
                        break
            except OSError:
                pass
        if not attached:
            err = self._stderr_tail()
            self.close()
            raise RuntimeError("strace did not attach to the fsx server: %s" % err)

    def _stderr_tail(self):
        try:
            self.errfile.flush()
            self.errfile.seek(0)
            return self.errfile.read()[-1500:]
        except Exception:
            return ""

    def _readline(self, timeout):
        import select
        r, _w, _x = select.select([self.proc.stdout], [], [], timeout)
        if not r:
            return ""
        return self.proc.stdout.readline()

    def run(self, job, timeout=120):
        """Execute one job in a forked child.  Returns dict(id, status, killed, exit)."""
        self._next += 1
        job = dict(job, id=self._next)
        self.proc.stdin.write(json.dumps(job) + "\n")
        self.proc.stdin.flush()
        line = self._readline(timeout)
        if not line.startswith("DONE"):
            raise RuntimeError("fsx server: no answer for job %r: %r %s" % (
                job["id"], line, self._stderr_tail()))
        _d, jid, status = line.split()
        status = int(status)
        res = {"id": int(jid), "status": status,
               "killed": os.WIFSIGNALED(status) and os.WTERMSIG(status) == 9,
               "exit": os.WEXITSTATUS(status) if os.WIFEXITED(status) else None}
        self.jobs[res["id"]] = res
        return res

    def close(self):
        """Stop the server; afterwards the traces are complete."""
        if self.proc is not None:
            try:
                self.proc.stdin.close()
            except Exception:
                pass
            try:
                self.proc.wait(timeout=60)
            except Exception:
                self.proc.kill()
            self.proc = None
        if self.strace is not None:
            try:
                self.strace.wait(timeout=60)      # ends when the last tracee is gone
            except Exception:
                self.strace.kill()
            self.strace = None
        if self._recs is None:
            try:
                with open(self.tracefile, "r", errors="replace") as f:
                    self._recs = parse_strace(f.read())
            except OSError:
                self._recs = []
        return self

    def trace_ops(self, jobid, root, partial=False):
        """Real mutations below root between the two markers of job jobid (after close()).
        partial=True: the job was killed -- everything after BEGIN up to its death."""
        assert self._recs is not None, "close() first"
        begin = "%s %d BEGIN" % (MARK, jobid)
        end = "%s %d END" % (MARK, jobid)
        pid = None
        seg = []
        state = 0
        for r in self._recs:
            if state == 0:
                if r["call"] == "write" and r["paths"] and r["paths"][0] == begin:
                    pid, state = r["pid"], 1
            elif state == 1 and r["pid"] == pid:
                if r["call"] == "write" and r["paths"] and r["paths"][0] == end:
                    state = 2
                    break
                seg.append(r)
        if state == 0 or (state == 1 and not partial):
            return None
        return strace_to_ops(seg, root)

    def cleanup(self):
        self.close()
        try:
            self.errfile.close()
        except Exception:
            pass
        import shutil
        shutil.rmtree(self.tmp, ignore_errors=True)


# the child side ------------------------------------------------------------

class _Padder(object):
    def __init__(self, scratch):
        os.makedirs(scratch, exist_ok=True)
        self.nul = os.open(os.devnull, os.O_WRONLY)
        self.fd = os.open(os.path.join(scratch, "pad"), os.O_RDWR | os.O_CREAT, 0o600)
        self.missing = os.path.join(scratch, "no-such-dir", "x")

    def one(self, kind):
        try:
            if kind == "write":
                os.write(self.nul, b"p")
            elif kind == "truncate":
                os.ftruncate(self.fd, 0)
            elif kind == "rename":
                os.rename(self.missing, self.missing + "2")
            elif kind == "unlink":
                os.unlink(self.missing)
            elif kind == "mkdir":
                os.mkdir(os.sep)
            elif kind == "rmdir":
                os.rmdir(self.missing)
        except OSError:
            pass

    def pad(self, kind, made):
        """Make the NEXT call of `kind` the KILL_K[kind]-th of this process."""
        k = KILL_K.get(kind)
        if k is None:
            os._exit(5)               # kind cannot be killed for real (creat)
        need = k - 1 - made
        if need < 0:
            os._exit(6)
        for _ in range(need):
            self.one(kind)


def mark(jobid, which):
    """Marker write, visible in the strace log."""
    fd = os.open(os.devnull, os.O_WRONLY)
    try:
        os.write(fd, ("%s %d %s" % (MARK, jobid, which)).encode("ascii"))
    finally:
        os.close(fd)


def _serve(handler_name, scratch):
    import importlib
    modname, fname = handler_name.split(":")
    from vf import env  # noqa: F401  (virtual reactor, sys.path)
    handler = getattr(importlib.import_module(modname), fname)
    install()

    def say(text):
        # never write(2) in the server itself: strace counts write calls per process for the kill injection
        os.writev(1, [text.encode("ascii")])
    nul = os.open(os.devnull, os.O_WRONLY)
    padder = _Padder(scratch)       # before strace attaches: its set-up calls are not counted anywhere
    say("READY\n")
    for line in sys.stdin:
        line = line.strip()
        if not line:
            continue
        if line.startswith("SYNC "):
            os.writev(nul, [line.encode("ascii")])     # shows up in the strace log once attached
            say("SYNCED\n")
            continue
        job = json.loads(line)
        pid = os.fork()
        if pid == 0:
            code = 0
            try:
                fx = Fsx(root=job["root"], kill_at=job.get("kill_at"), kill_pad=padder.pad)
                fx.jobid = job["id"]
                # the handler does ALL its file-system activity inside `with fx:` (so that every
                # system call of a kill-able kind is counted) and brackets the operation proper
                # with fx.begin_op() / fx.end_op()
                handler(job, fx)
            except BaseException:
                try:
                    traceback.print_exc()
                    sys.stderr.flush()
                except Exception:
                    pass
                code = 3
            os._exit(code)
        _p, status = os.waitpid(pid, 0)
        say("DONE %d %d\n" % (job["id"], status))


if __name__ == "__main__":
    if len(sys.argv) >= 3 and sys.argv[1] == "--serve":
        scratch_ = sys.argv[sys.argv.index("--scratch") + 1] if "--scratch" in sys.argv \
            else tempfile.mkdtemp(prefix="vf-fsx-scratch-")
        _serve(sys.argv[2], scratch_)
