"""E4: small executable reference models (oracles).  stdlib only."""
import hashlib


# ---------------------------------------------------------------- matching
def max_matching(adj):
    """Kuhn's augmenting-path maximum bipartite matching.
    adj: dict left -> iterable of right vertices.  Returns size."""
    match_r = {}

    def try_(u, seen):
        for v in adj[u]:
            if v in seen:
                continue
            seen.add(v)
            if v not in match_r or try_(match_r[v], seen):
                match_r[v] = u
                return True
        return False

    n = 0
    for u in adj:
        if try_(u, set()):
            n += 1
    return n


def happiness_of_sharemap(sharemap):
    """sharemap: share -> set(servers)."""
    return max_matching({sh: list(servers) for sh, servers in sharemap.items()})


# ---------------------------------------------------------------- hashes
def netstring(s):
    return b"%d:%s," % (len(s), s)


def sha256d(b):
    return hashlib.sha256(hashlib.sha256(b).digest()).digest()


def tagged_hash(tag, val, truncate_to=32):
    return sha256d(netstring(tag) + val)[:truncate_to]


def tagged_pair_hash(tag, v1, v2, truncate_to=32):
    return sha256d(netstring(tag) + netstring(v1) + netstring(v2))[:truncate_to]
