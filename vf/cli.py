"""./check <ID> [--tier quick|thorough] [--seed N] [--shards N] [--replay F]"""
import argparse
import importlib
import json
import os
import subprocess
import sys
import tempfile
import time
import traceback

VF_ROOT = os.path.dirname(os.path.dirname(os.path.abspath(__file__)))


def main(argv=None):
    ap = argparse.ArgumentParser()
    ap.add_argument("pid")
    ap.add_argument("--tier", default=os.environ.get("VERIF_TIER", "quick"),
                    choices=["quick", "thorough"])
    ap.add_argument("--seed", type=int, default=int(os.environ.get("VERIF_SEED", "0") or 0))
    ap.add_argument("--shards", type=int, default=None)
    ap.add_argument("--shard", type=int, default=None)
    ap.add_argument("--nshards", type=int, default=None)
    ap.add_argument("--out", default=None)
    ap.add_argument("--replay", default=None)
    ap.add_argument("--budget", type=float, default=None)
    a = ap.parse_args(argv)
    pid = a.pid.upper()

    from vf import env  # noqa: F401  (bootstrap first)
    env.ensure_deps()
    from vf.report import Check

    mod = importlib.import_module("vf.checks." + pid.lower())
    level = getattr(mod, "META", {}).get("level", getattr(mod, "LEVEL", "exploration"))
    budget = a.budget
    if budget is None:
        b = getattr(mod, "BUDGET", {"quick": 40, "thorough": 420})
        budget = b[a.tier]

    if a.shard is not None:
        # worker
        ck = Check(pid, a.tier, a.seed, a.shard, a.nshards, level, budget_s=budget)
        try:
            mod.run(ck)
        except Exception:
            ck.inconclusive_because("harness exception in shard %d: %s" % (
                a.shard, traceback.format_exc()[-1500:]))
        with open(a.out, "w") as f:
            json.dump(ck.dump(), f)
        return 0

    nshards = a.shards
    if nshards is None:
        nshards = getattr(mod, "SHARDS", {"quick": 1, "thorough": 14})[a.tier]
    if a.replay:
        nshards = 1
    ck = Check(pid, a.tier, a.seed, 0, 1, level, replay=a.replay, budget_s=budget)
    if nshards <= 1:
        try:
            mod.run(ck)
        except Exception:
            ck.inconclusive_because("harness exception: " + traceback.format_exc()[-2000:])
        return ck.finish()

    tmpd = tempfile.mkdtemp(prefix="vf-shards-")
    procs = []
    env_ = dict(os.environ, PYTHONHASHSEED="0")
    for i in range(nshards):
        out = os.path.join(tmpd, "s%d.json" % i)
        cmd = [sys.executable, "-B", "-m", "vf.cli", pid, "--tier", a.tier, "--seed", str(a.seed),
               "--shard", str(i), "--nshards", str(nshards), "--out", out,
               "--budget", str(budget)]
        log = open(os.path.join(tmpd, "s%d.log" % i), "w")
        procs.append((i, out, log, subprocess.Popen(cmd, cwd=VF_ROOT, env=env_, stdout=log, stderr=log)))
    deadline = time.time() + budget * 3 + 300
    for i, out, log, p in procs:
        try:
            p.wait(timeout=max(1, deadline - time.time()))
        except subprocess.TimeoutExpired:
            p.kill()
            ck.inconclusive_because("shard %d exceeded the wall-clock watchdog" % i)
        log.close()
        try:
            with open(out) as f:
                ck.merge(json.load(f))
        except Exception:
            tail = ""
            try:
                tail = open(os.path.join(tmpd, "s%d.log" % i)).read()[-800:]
            except Exception:
                pass
            ck.inconclusive_because("shard %d produced no result: %s" % (i, tail))
    ck.nshards = nshards
    import shutil
    shutil.rmtree(tmpd, ignore_errors=True)
    return ck.finish()


if __name__ == "__main__":
    sys.exit(main())
