"""Helpers shared by the immutable-file checks (C01-C06, C45, C46)."""
import os
import struct
from io import BytesIO

from vf import env  # noqa
from zope.interface import implementer
from twisted.internet import defer
from twisted.internet.interfaces import IConsumer

from allmydata.immutable import upload as _upload

CONTAINER_HDR = 12    # immutable ShareFile v1 header: version, (unused) size, number of leases
LEASE_SIZE = 72

SEGSIZES = [1, 2, 3, 7, 16, 56, 64, 100, 128, 1024, 4096, 131072]


def boundary_sizes(rng, k, segsize, maxsize):
    """Boundary-biased file size."""
    cands = [0, 1, 2, 54, 55, 56, 57, 58, 100]
    seg = max(1, ((min(segsize, maxsize) + k - 1) // k) * k)
    for m in (1, 2, 3, 4, 5, 8):
        for d in (-1, 0, 1):
            cands += [m * seg + d, m * k + d, m * segsize + d]
    cands += [15, 16, 17, 31, 32, 33, 255, 256, 257]
    cands = [c for c in cands if 0 <= c <= maxsize]
    if rng.random() < 0.6:
        return rng.choice(cands)
    return rng.randint(0, maxsize)


def gen_params(rng, maxsize=20000, maxn=10, need_happy=True):
    n = rng.choice([1, 2, 3, 3, 4, 4, 5, 6, 7, 8, 10, 10, 13, 16]) if maxn >= 16 else rng.randint(1, maxn)
    n = min(n, maxn)
    k = rng.randint(1, n)
    if rng.random() < 0.25:
        k = rng.choice([1, n, max(1, n - 1), min(n, 3)])
    nservers = max(1, rng.randint(max(1, n - 3), n + 3)) if rng.random() < .7 else rng.randint(1, n + 3)
    happy = rng.randint(1, min(n, nservers))
    segsize = rng.choice(SEGSIZES)
    size = boundary_sizes(rng, k, segsize, maxsize)
    # keep the number of segments bounded (each segment costs N block writes)
    eff = max(1, ((min(segsize, max(size, 1)) + k - 1) // k) * k)
    while size // eff > 40:
        segsize = SEGSIZES[min(len(SEGSIZES) - 1, SEGSIZES.index(segsize) + 1)]
        eff = max(1, ((min(segsize, max(size, 1)) + k - 1) // k) * k)
    return dict(k=k, n=n, happy=happy, nservers=nservers, segsize=segsize, size=size)


def gen_data(rng, size):
    mode = rng.randrange(4)
    if mode == 0:
        return bytes(rng.getrandbits(8) for _ in range(size)) if size < 4096 else rng.randbytes(size)
    if mode == 1:
        return bytes((i * 131 + 7) % 251 for i in range(size))
    if mode == 2:
        return b"\x00" * size
    return rng.randbytes(size)


def expected_encoding(size, k, max_segsize):
    """Independent arithmetic model of the encoder's segmentation."""
    segsize = min(max_segsize, size)
    segsize = ((segsize + k - 1) // k) * k
    numsegs = (size + segsize - 1) // segsize if segsize else 0
    numsegs = max(numsegs, 1) if size > 0 else numsegs
    tail = size % segsize if segsize else 0
    if tail == 0:
        tail = segsize
    tail_padded = ((tail + k - 1) // k) * k
    return dict(segment_size=segsize, num_segments=numsegs, tail_segment_padded=tail_padded)


class ChunkyUploadable(_upload.FileHandle):
    """IUploadable that answers each read(length) with a random partition of
    the bytes into several pieces (the interface allows a list of strings)."""

    def __init__(self, data, convergence, rng):
        _upload.FileHandle.__init__(self, BytesIO(data), convergence=convergence)
        self._rng = rng

    def read(self, length):
        data = self._filehandle.read(length)
        pieces = []
        i = 0
        while i < len(data):
            n = self._rng.randint(1, max(1, len(data) - i))
            if self._rng.random() < .3:
                n = min(n, self._rng.randint(1, 7))
            pieces.append(data[i:i + n])
            i += n
        if not pieces:
            pieces = [b""]
        return defer.succeed(pieces)


def make_uploadable(rng, data, convergence, kind=None):
    kind = kind or rng.choice(["data", "filehandle", "chunky"])
    if kind == "data":
        return _upload.Data(data, convergence=convergence)
    if kind == "filehandle":
        return _upload.FileHandle(BytesIO(data), convergence=convergence)
    return ChunkyUploadable(data, convergence, rng)


@implementer(IConsumer)
class RecordingConsumer(object):
    """Consumer that records every chunk and can pause / stop its producer.

    on_write(consumer, data) is called for each chunk (the oracle hook)."""

    def __init__(self, on_write=None):
        self.chunks = []
        self.nbytes = 0
        self.producer = None
        self.streaming = None
        self.on_write = on_write
        self.done = False
        self.writes_after_unregister = 0

    def registerProducer(self, p, streaming):
        self.producer = p
        self.streaming = streaming
        if not streaming:
            p.resumeProducing()

    def unregisterProducer(self):
        self.producer = None
        self.done = True

    def write(self, data):
        if self.done:
            self.writes_after_unregister += 1
        self.chunks.append(data)
        self.nbytes += len(data)
        if self.on_write is not None:
            self.on_write(self, data)
        if self.producer is not None and self.streaming is False:
            self.producer.resumeProducing()

    def value(self):
        return b"".join(self.chunks)


# ------------------------------------------------------------ share surgery
class ShareFile(object):
    """Byte-level view of one immutable share file on disk (container header +
    share data + leases), parsed independently of the repository's code."""

    def __init__(self, path):
        self.path = path
        with open(path, "rb") as f:
            self.raw = bytearray(f.read())
        (self.cver, self.unused, self.nleases) = struct.unpack(">LLL", self.raw[:12])
        self.data_len = len(self.raw) - CONTAINER_HDR - self.nleases * LEASE_SIZE
        d = self.data()
        (self.version,) = struct.unpack(">L", d[:4])
        if self.version == 1:
            f = struct.unpack(">LLLLLLLL", d[4:0x24])
            self.fieldsize = 4
            self.offpos = {"data": 0x0c, "plaintext_hash_tree": 0x10, "crypttext_hash_tree": 0x14,
                           "block_hashes": 0x18, "share_hashes": 0x1c, "uri_extension": 0x20}
        else:
            f = struct.unpack(">QQQQQQQQ", d[4:0x44])
            self.fieldsize = 8
            self.offpos = {"data": 0x14, "plaintext_hash_tree": 0x1c, "crypttext_hash_tree": 0x24,
                           "block_hashes": 0x2c, "share_hashes": 0x34, "uri_extension": 0x3c}
        self.block_size, self.share_data_size = f[0], f[1]
        self.offsets = dict(zip(["data", "plaintext_hash_tree", "crypttext_hash_tree",
                                 "block_hashes", "share_hashes", "uri_extension"], f[2:]))

    def data(self):
        return bytes(self.raw[CONTAINER_HDR:CONTAINER_HDR + self.data_len])

    def region(self, name):
        """(start, end) of a section inside the share data."""
        order = ["data", "plaintext_hash_tree", "crypttext_hash_tree", "block_hashes",
                 "share_hashes", "uri_extension"]
        i = order.index(name)
        start = self.offsets[name]
        end = self.offsets[order[i + 1]] if i + 1 < len(order) else self.data_len
        return start, end

    def ueb_bytes(self):
        s, e = self.region("uri_extension")
        d = self.data()
        fs = self.fieldsize
        (ln,) = struct.unpack(">L" if fs == 4 else ">Q", d[s:s + fs])
        return d[s + fs:s + fs + ln]

    def ueb(self):
        from allmydata import uri
        return uri.unpack_extension(self.ueb_bytes())

    # -- mutation (offsets are relative to the share data, as a reader sees them)
    def write_at(self, off, data):
        a = CONTAINER_HDR + off
        self.raw[a:a + len(data)] = data

    def flip(self, off, mask=0x01):
        self.raw[CONTAINER_HDR + off] ^= mask

    def set_offset_field(self, name, value):
        fmt = ">L" if self.fieldsize == 4 else ">Q"
        lim = (1 << (8 * self.fieldsize)) - 1
        self.write_at(self.offpos[name], struct.pack(fmt, max(0, min(lim, value))))

    def truncate_data(self, newlen):
        """Cut the share data to newlen bytes, keeping the leases behind it."""
        leases = self.raw[CONTAINER_HDR + self.data_len:]
        self.raw = self.raw[:CONTAINER_HDR + newlen] + leases
        self.data_len = newlen

    def replace_data(self, newdata):
        leases = self.raw[CONTAINER_HDR + self.data_len:]
        self.raw = self.raw[:CONTAINER_HDR] + bytearray(newdata) + leases
        self.data_len = len(newdata)

    def save(self, path=None):
        with open(path or self.path, "wb") as f:
            f.write(bytes(self.raw))


def upload(grid, client, uploadable, **kw):
    return grid.wait(client.upload(uploadable), **kw)


def read_all(grid, node, offset=0, size=None, consumer=None, **kw):
    c = consumer or RecordingConsumer()
    st, res = grid.wait(node.read(c, offset, size), **kw)
    return st, res, c


# ------------------------------------------------------------ adversarial sets
class FixedKeyData(_upload.Data):
    """Uploadable with a caller-chosen AES key (what a malicious or merely
    unusual uploader may do; the protocol does not constrain key choice)."""

    def __init__(self, data, key):
        _upload.Data.__init__(self, data, convergence=None)
        self._fixed_key = key

    def get_encryption_key(self):
        return defer.succeed(self._fixed_key)


def honest_shares(nservers, params, data, key, seed=0):
    """Upload `data` under `key` on a scratch grid; return (cap, {shnum: bytes of
    the share file}).  The scratch grid is closed before returning."""
    from vf.grid import VGrid
    g = VGrid(nservers=nservers, seed=seed, profile="fifo", keep_log=False)
    try:
        c = g.make_client(k=params["k"], happy=1, n=params["n"], max_segment_size=params["segsize"])
        st, res = g.wait(c.upload(FixedKeyData(data, key)))
        if st != "ok":
            raise RuntimeError("scratch upload failed: %r" % (res,))
        from allmydata import uri
        u = uri.from_string(res.get_uri())
        out = {}
        for (vs, shnum, path) in g.find_shares(u.get_storage_index()):
            with open(path, "rb") as f:
                out[shnum] = f.read()
        return res.get_uri(), out
    finally:
        g.close()


def forge_mixed_set(shares_a, shares_b, from_b, k, n, size, key):
    """Malicious-uploader share set: share i comes from file B when i in
    from_b, else from file A (same key, size and encoding).  Every share gets
    A's ciphertext hash tree; the share hash tree and the UEB are recomputed so
    that the set is self-consistent and validates against the returned cap.
    Only the ciphertext check can notice that blocks of A and B are mixed.
    Returns (cap_bytes, {shnum: share file bytes})."""
    import tempfile
    from allmydata import uri as _uri
    from allmydata.hashtree import HashTree
    from allmydata.util import hashutil

    def parse(raw):
        fd, p = tempfile.mkstemp(prefix="vf-share-")
        os.write(fd, raw)
        os.close(fd)
        try:
            return ShareFile(p)
        finally:
            os.unlink(p)

    pa = {i: parse(raw) for i, raw in shares_a.items()}
    pb = {i: parse(raw) for i, raw in shares_b.items()}
    any_a = pa[min(pa)]
    ct_s, ct_e = any_a.region("crypttext_hash_tree")
    ct_tree_a = any_a.data()[ct_s:ct_e]
    roots = []
    src = {}
    for i in range(n):
        sf = (pb if i in from_b else pa)[i]
        src[i] = sf
        bs, be = sf.region("block_hashes")
        roots.append(sf.data()[bs:bs + 32])
    t = HashTree(roots)
    ueb = dict(any_a.ueb())
    ueb["share_root_hash"] = t[0]
    ueb_bytes = _uri.pack_extension(ueb)
    assert len(ueb_bytes) == len(any_a.ueb_bytes())
    out = {}
    for i in range(n):
        sf = src[i]
        d = bytearray(sf.data())
        s, e = sf.region("crypttext_hash_tree")
        assert e - s == len(ct_tree_a)
        d[s:e] = ct_tree_a
        chain = b"".join(struct.pack(">H", hi) + t[hi] for hi in sorted(t.needed_hashes(i, include_leaf=True)))
        s, e = sf.region("share_hashes")
        assert len(chain) <= e - s
        d[s:s + len(chain)] = chain
        s, e = sf.region("uri_extension")
        fs = sf.fieldsize
        d[s + fs:s + fs + len(ueb_bytes)] = ueb_bytes
        sf.replace_data(bytes(d))
        out[i] = bytes(sf.raw)
    cap = _uri.CHKFileURI(key=key, uri_extension_hash=hashutil.uri_extension_hash(ueb_bytes),
                          needed_shares=k, total_shares=n, size=size).to_string()
    return cap, out


def install_shares(grid, si, shares, placement=None):
    """Write share files {shnum: bytes} into the grid's server directories.
    placement: {shnum: server index}; default shnum % nservers."""
    for shnum, raw in shares.items():
        vs = grid.servers[(placement or {}).get(shnum, shnum % len(grid.servers))]
        d = vs.sharedir(si)
        os.makedirs(d, exist_ok=True)
        with open(os.path.join(d, "%d" % shnum), "wb") as f:
            f.write(raw)


def forge_coordinated(grid, si, k, n, size, segsize, rng):
    """Coordinated forgery that leaves the UEB and the share hash chains alone:
    keep exactly k shares, replace one block of one of them, recompute THAT share's
    block hash tree, decode the segment the reader will obtain and recompute the
    ciphertext hash tree (stored in every kept share) to match it.  A correct reader
    must reject it twice over (block hash root vs. share hash leaf; ciphertext hash
    tree vs. the root in the UEB).  Returns a description or None."""
    import zfec
    from allmydata.hashtree import HashTree
    from allmydata.util import hashutil
    shares = grid.find_shares(si)
    nums = sorted(set(s for (_, s, _) in shares))
    if len(nums) < k:
        return None
    keep = sorted(rng.sample(nums, k))
    kept = {}
    for (vs, s, path) in shares:
        if s in keep and s not in kept:
            kept[s] = ShareFile(path)
        else:
            os.unlink(path)
    eff = ((min(segsize, size) + k - 1) // k) * k
    numsegs = (size + eff - 1) // eff
    j = rng.randrange(numsegs)
    seglen = eff if j < numsegs - 1 else size - j * eff
    padded = ((seglen + k - 1) // k) * k
    blen = padded // k
    victim = rng.choice(keep)
    blocks = {}
    for s, sf in kept.items():
        d0, _ = sf.region("data")
        bs = sf.block_size
        blocks[s] = sf.data()[d0 + j * bs:d0 + j * bs + blen]
        if len(blocks[s]) != blen:
            return None
    newblock = rng.randbytes(blen)
    if newblock == blocks[victim]:
        return None
    blocks[victim] = newblock
    prim = zfec.Decoder(k, n).decode([blocks[s] for s in keep], keep)
    segment = b"".join(prim)[:seglen]

    def rebuilt(tree_bytes, nleaves, idx, newleaf):
        nodes = [tree_bytes[i:i + 32] for i in range(0, len(tree_bytes), 32)]
        first = len(nodes) - (len(nodes) + 1) // 2
        leaves = nodes[first:first + nleaves]
        leaves[idx] = newleaf
        t = HashTree(leaves)
        out = b"".join(t[i] for i in range(len(t)))
        return out if len(out) == len(tree_bytes) else None

    # the victim's own block hash tree
    sf = kept[victim]
    s0, e0 = sf.region("block_hashes")
    bht = rebuilt(sf.data()[s0:e0], numsegs, j, hashutil.block_hash(newblock))
    if bht is None:
        return None
    d0, _ = sf.region("data")
    sf.write_at(d0 + j * sf.block_size, newblock)
    sf.write_at(s0, bht)
    # ciphertext hash tree in every kept share
    for s, f in kept.items():
        c0, c1 = f.region("crypttext_hash_tree")
        cht = rebuilt(f.data()[c0:c1], numsegs, j, hashutil.crypttext_segment_hash(segment))
        if cht is None:
            return None
        f.write_at(c0, cht)
        f.save()
    return "kept=%s victim=sh%d seg=%d/%d" % (keep, victim, j, numsegs)
