"""E6: small monitor helpers attached from the harness (no source hooks)."""
import functools
import sys


def count_calls(ck, cls, name, label=None):
    """Wrap cls.name so that entries and raised exception types are counted
    in ck.reach.  Returns an undo function."""
    orig = cls.__dict__[name]
    label = label or "%s.%s" % (cls.__name__, name)

    @functools.wraps(orig)
    def wrapper(*a, **kw):
        ck.hit(label)
        try:
            return orig(*a, **kw)
        except Exception as e:
            ck.hit("%s!%s" % (label, type(e).__name__))
            raise
    setattr(cls, name, wrapper)

    def undo():
        setattr(cls, name, orig)
    return undo


def count_callers(ck, cls, name, label=None, depth=1):
    """Count calls of cls.name keyed by the calling function's name."""
    orig = cls.__dict__[name]
    label = label or name

    @functools.wraps(orig)
    def wrapper(*a, **kw):
        try:
            caller = sys._getframe(depth).f_code.co_name
        except Exception:
            caller = "?"
        ck.hit("%s<-%s" % (label, caller))
        return orig(*a, **kw)
    setattr(cls, name, wrapper)

    def undo():
        setattr(cls, name, orig)
    return undo
