#!/usr/bin/env python3
"""Regenerate /verif/MANIFEST.json from vf/registry.py and the check modules present."""
import json, os, sys
ROOT = os.path.dirname(os.path.dirname(os.path.abspath(__file__)))
import ast


def load_meta():
    P = {}
    d = os.path.join(ROOT, "vf", "checks")
    for fn in sorted(os.listdir(d)):
        if not (fn.startswith("c") and fn.endswith(".py")):
            continue
        tree = ast.parse(open(os.path.join(d, fn)).read())
        meta = {}
        for node in tree.body:
            if isinstance(node, ast.Assign) and len(node.targets) == 1 and getattr(node.targets[0], "id", None) in ("META", "LEVEL"):
                v = ast.literal_eval(node.value)
                if node.targets[0].id == "META":
                    meta.update(v)
                else:
                    meta["level_var"] = v
        if meta.get("text"):
            meta.setdefault("level", meta.get("level_var", "exploration"))
            assert meta.get("level_var", meta["level"]) == meta["level"], fn
            meta.setdefault("ref", "DESIGN.md §5 " + fn[:-3].upper())
            P[fn[:-3].upper()] = meta
    return P


P = load_meta()

props = [json.loads(l) for l in open(os.path.join(ROOT, "properties.jsonl"))]
na_file = os.path.join(ROOT, "vf", "not_applicable.json")
na_reasons = json.load(open(na_file)) if os.path.exists(na_file) else {}
checks, na = [], []
for p in props:
    pid = p["id"]
    mod = os.path.join(ROOT, "vf", "checks", pid.lower() + ".py")
    if pid in P and os.path.exists(mod) and pid not in na_reasons:
        m = P[pid]
        checks.append({
            "property_id": pid,
            "quick_cmd": "./check %s --tier quick" % pid,
            "thorough_cmd": "./check %s --tier thorough" % pid,
            "evidence_file": "/verif/evidence/%s.json" % pid,
            "replay_cmd_template": "./check %s --replay {path}" % pid,
            "engine": "vf",
            "level_claimed": {"category": m["level"], "text": m["text"], "design_ref": m["ref"]},
            "level_note": m["note"],
            "technique": m["technique"],
        })
    else:
        na.append({"property_id": pid,
                   "reason": na_reasons.get(pid, "check not built yet in this session (planned: DESIGN.md §5 %s); not claimed until it exists" % pid)})
man = {
    "version": 1,
    "setup_cmd": "./setup.sh",
    "hooks": {
        "guard": "TAHOE_LAFS_VERIF",
        "enable": "no source hooks: monitors are attached from the harness at import time (class wrappers, module-global substitution, virtual reactor); checks import allmydata from /repo/src directly, so they always run the current working tree",
        "baseline_off_cmd": "cd /repo && /venv/bin/python -m pytest -ra -q -p no:cacheprovider --timeout=900 --continue-on-collection-errors",
        "source_commits": [],
        "add_only": True,
    },
    "engines": [
        {"name": "vf", "path": "/verif/vf", "serves_properties": [c["property_id"] for c in checks],
         "kind_free_text": "runtime monitoring: real tahoe-lafs code under a virtual reactor with seeded/systematic delivery scheduling, fault and crash-point injection, reference-model oracles and recorded histories"},
    ],
    "checks": checks,
    "not_applicable": na,
    "notes": "All verdicts are 'held on the executions explored'. Exit 0 held / 1 VIOLATION / 2 inconclusive. known_findings.json lists mechanism-keyed known and fixed findings.",
}
with open(os.path.join(ROOT, "MANIFEST.json"), "w") as f:
    json.dump(man, f, indent=1)
    f.write("\n")
print("checks:", len(checks), "not_applicable:", len(na))
