#!/usr/bin/env python3
"""usage: tools/seed_checks.py C17-4 C17 C18 ...  -- set the list of checks run against a kept seeded change"""
import json, sys
p = '/verif/seeded/%s/meta.json' % sys.argv[1]
m = json.load(open(p)); m["checks"] = sys.argv[2:]; json.dump(m, open(p, "w"), indent=1)
