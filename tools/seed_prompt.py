#!/usr/bin/env python3
"""Print the prompt given to an independent sub-agent that seeds a property-breaking
change (it sees only the property text and its own scratch worktree, nothing of /verif)."""
import json, sys, os
ROOT = os.path.dirname(os.path.dirname(os.path.abspath(__file__)))
pid = sys.argv[1]
p = [json.loads(l) for l in open(os.path.join(ROOT, "properties.jsonl")) if json.loads(l)["id"] == pid][0]
wt = "/tmp/seed/%s" % pid
print(f"""You are given your own scratch git worktree of the tahoe-lafs repository (a decentralized, encrypted, erasure-coded file store; pure Python on Twisted) at {wt}. Work only under {wt}, {wt}-out/ and scratch directories you create under /var/tmp; do not touch /repo or /verif.

PROPERTY {pid} — {p['title']}
{p['statement']}
(Intended scope: {p['quantifier']['text']})

TASK: produce up to TWO independent source changes (each its own patch; different mechanism / different site) to tahoe-lafs under src/allmydata (not under src/allmydata/test) that BREAK this property while
 (1) the code still imports and
 (2) the repository's existing offline test-suite result is unchanged: from the worktree root run `/venv/bin/python -m pytest -q -p no:cacheprovider --timeout=900 --continue-on-collection-errors` — on the unmodified tree 151 tests pass and ~90 test modules fail to import because third-party packages are missing offline; that outcome must be the same with your change.
Each change must need something SPECIFIC to manifest — a particular interleaving or order of server answers, a crash or fault at a particular point, a multi-step sequence of operations, an unusual input (a boundary size, a particular parameter combination), or two cooperating edits that each look fine alone — not something that ordinary use would expose at once (do not break every upload/download/parse). Make it realistic: the kind of slip a developer makes in a refactoring or an optimisation (off-by-one at a boundary, a dropped re-check on an error path, wrong variable in a rare branch, an inverted condition for an unusual case, a missing case).

For each change give a DEMONSTRATION: a standalone script demoN.py (or a test file) that fails / exits non-zero with the change applied and passes on the unmodified worktree, exercising the real code.
Environment notes: many modules need third-party packages that are missing offline. Run your demos with `PYTHONPATH={wt}/src:/var/tmp/stubs` — /var/tmp/stubs provides minimal stand-ins for `collections_extended.RangeMap`, `filelock` and `wormhole`; with it the repository's own test helpers (e.g. `allmydata.test.no_network.GridTestMixin`, `allmydata.test.common_util`) and most of the wider test-suite import and run, e.g. `cd /var/tmp/mycwd && PYTHONPATH={wt}/src:/var/tmp/stubs /venv/bin/python -m pytest -q -p no:cacheprovider {wt}/src/allmydata/test/test_upload.py` passes. Always run such things from a scratch cwd outside the worktree (temp dirs are created in the cwd). /venv/bin/python is Python 3.12 with Twisted, foolscap, zfec, cryptography, treq, hypothesis installed. There is no network.

DELIVERABLES in {wt}-out/: change1.diff (output of `git diff` against HEAD; must apply with `git apply` to a clean worktree), demo1.py (first lines: a comment with the exact command to run it), notes1.md (what it breaks; what is needed for it to manifest; why the existing tests do not see it); and change2.diff / demo2.py / notes2.md for the optional second change. Verify yourself: clean tree → demo passes; patched tree → demo fails; patched tree → the 151-test suite outcome unchanged. Leave the worktree clean at the end (`git checkout -- .`). Final reply: a short summary of each change (file, what, trigger) and the commands you ran.""")
