#!/usr/bin/env python3
"""usage: tools/keep_seed.py C07 1 "needs: ..."  -- copy a confirmed seeded change into /verif/seeded/<ID>-<n>/"""
import json, os, shutil, sys
ROOT = os.path.dirname(os.path.dirname(os.path.abspath(__file__)))
pid, n, needs = sys.argv[1], sys.argv[2], sys.argv[3]
confirmed = sys.argv[4] if len(sys.argv) > 4 else ""
seedroot = os.environ.get("SEEDROOT", "/tmp/seed")
out = "%s/%s-out" % (seedroot, pid)
dst = os.path.join(ROOT, "seeded", "%s-%s" % (pid, int(n) + int(os.environ.get("NOFFSET", "0"))))
os.makedirs(dst, exist_ok=True)
shutil.copy(os.path.join(out, "change%s.diff" % n), os.path.join(dst, "patch.diff"))
shutil.copy(os.path.join(out, "demo%s.py" % n), os.path.join(dst, "demo.py"))
if os.path.exists(os.path.join(out, "notes%s.md" % n)):
    shutil.copy(os.path.join(out, "notes%s.md" % n), os.path.join(dst, "notes.md"))
meta = {"property": pid, "checks": [pid], "origin": "independent sub-agent given only the property text and a scratch worktree",
        "needs_to_manifest": needs,
        "confirmed_by_lead": confirmed or "tools/confirm_seed.sh %s %s: demo exit 0 on clean worktree, non-zero with patch; baseline suite with patch: 151 passed, 90 collection errors (unchanged)" % (pid, n),
        "demo_cmd": "cd <scratch cwd> && PYTHONPATH=<worktree>/src:/var/tmp/stubs /venv/bin/python demo.py (paths inside demo.py refer to %s/%s; tools/confirm_seed.sh rewrites them)" % (seedroot, pid)}
json.dump(meta, open(os.path.join(dst, "meta.json"), "w"), indent=1)
print("kept", dst)
