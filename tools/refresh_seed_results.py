#!/usr/bin/env python3
"""usage: tools/refresh_seed_results.py C07-1 C07-2 ...  -- re-run the listed seeded changes and replace their rows in
selftest/RESULTS-seeded.md (the full table is written by `tools/selftest.py --seeded`)."""
import os, re, subprocess, sys
ROOT = os.path.dirname(os.path.dirname(os.path.abspath(__file__)))
path = os.path.join(ROOT, "selftest", "RESULTS-seeded.md")
rows = open(path).read().split("\n")
for name in sys.argv[1:]:
    out = subprocess.run([sys.executable, os.path.join(ROOT, "tools", "selftest.py"), "--seeded", "--only", name + " "],
                         capture_output=True, text=True).stdout
    # --only is a substring match on "seeded/<name>"; use exact match below
    out = subprocess.run([sys.executable, os.path.join(ROOT, "tools", "selftest.py"), "--seeded", "--only", name],
                         capture_output=True, text=True).stdout
    for l in out.splitlines():
        m = re.match(r"seeded/(\S+)\s+(\S+)\s+(.*)$", l)
        if not m or m.group(1) != name:
            continue
        checks = []
        for part in m.group(3).split(" ; "):
            mm = re.match(r"(C\d\d) rc=(\d+) (\[.*?\])?", part.strip())
            if mm:
                keys = re.findall(r"key=([^ ]+) count", part)
                checks.append("%s rc=%s %s" % (mm.group(1), mm.group(2), ", ".join(keys[:3])))
        new = "| seeded/%s | %s | %s |" % (name, m.group(2), "; ".join(checks))
        rows = [new if r.startswith("| seeded/%s |" % name) else r for r in rows]
        print(new[:160])
open(path, "w").write("\n".join(rows))
