#!/usr/bin/env python3
"""Run planted breaks (selftest/catalogue.py) and seeded changes (seeded/*/patch.diff)
against the checks: copy /repo/src to a scratch dir outside /repo and /verif, apply
one change, run the property's check with VF_REPO pointing there, expect exit 1.

usage: tools/selftest.py [--only NAME_SUBSTR] [--prop C02] [--seeded] [--jobs N]
"""
import argparse, json, os, shutil, subprocess, sys, tempfile, time, concurrent.futures
ROOT = os.path.dirname(os.path.dirname(os.path.abspath(__file__)))
sys.path.insert(0, os.path.join(ROOT, "selftest"))


def run_one(item):
    scratch = tempfile.mkdtemp(prefix="vf-scratch-", dir="/var/tmp")
    try:
        shutil.copytree("/repo/src", os.path.join(scratch, "src"), ignore=shutil.ignore_patterns("__pycache__"))
        if item.get("patch"):
            r = subprocess.run(["patch", "-p1", "-s", "-d", scratch, "-i", item["patch"]], capture_output=True, text=True)
            if r.returncode != 0:
                return dict(item, outcome="patch-failed", detail=(r.stdout + r.stderr)[-300:])
        else:
            p = os.path.join(scratch, "src", "allmydata", item["file"])
            s = open(p).read()
            if s.count(item["old"]) != 1:
                return dict(item, outcome="anchor-not-unique(%d)" % s.count(item["old"]))
            open(p, "w").write(s.replace(item["old"], item["new"]))
        t0 = time.time()
        env = dict(os.environ, VF_REPO=scratch, PYTHONHASHSEED="0", PYTHONDONTWRITEBYTECODE="1",
                   VF_EVIDENCE_DIR=os.path.join(scratch, "evidence"), VF_REPLAY_DIR=os.path.join(scratch, "replay"))
        outs = []
        for prop in item["props"]:
            r = subprocess.run(["/venv/bin/python", "-B", "-m", "vf.cli", prop, "--tier", item.get("tier", "quick")],
                               cwd=ROOT, env=env, capture_output=True, text=True, timeout=1800)
            keys = [l.strip() for l in r.stdout.splitlines() if l.strip().startswith("key=")]
            viol = ("VIOLATION property=%s " % prop) in r.stdout
            outs.append((prop, r.returncode if (r.returncode != 1 or viol) else 99, keys[:3],
                         (r.stdout + r.stderr)[-400:] if not (r.returncode in (0, 1) and (viol or r.returncode == 0)) else ""))
        caught = [o for o in outs if o[1] == 1]
        if not caught and item.get("expect") == "masked":
            # documented: the property still holds with this edit applied (a second layer enforces it, or the edit only
            # changes behaviour the statement / the interface leaves open)
            return dict(item, outcome="masked-as-documented", results=outs, wall=round(time.time() - t0, 1))
        return dict(item, outcome="caught" if caught else "MISSED", results=outs, wall=round(time.time() - t0, 1))
    finally:
        shutil.rmtree(scratch, ignore_errors=True)


def main():
    ap = argparse.ArgumentParser()
    ap.add_argument("--only", default=None)
    ap.add_argument("--prop", default=None)
    ap.add_argument("--seeded", action="store_true")
    ap.add_argument("--jobs", type=int, default=6)
    a = ap.parse_args()
    items = []
    if not a.seeded:
        import glob, importlib.util
        from catalogue import BREAKS
        BREAKS = list(BREAKS)
        for fn in sorted(glob.glob(os.path.join(ROOT, "selftest", "breaks_*.py"))):
            spec = importlib.util.spec_from_file_location(os.path.basename(fn)[:-3], fn)
            m = importlib.util.module_from_spec(spec)
            spec.loader.exec_module(m)
            for b in m.BREAKS:
                b.setdefault("tier", "quick")
                BREAKS.append(b)
        for b in BREAKS:
            items.append(dict(name=b["name"], props=[b["prop"]], file=b["file"], old=b["old"], new=b["new"], tier=b["tier"],
                              expect=b.get("expect")))
    sd = os.path.join(ROOT, "seeded")
    if a.seeded and os.path.isdir(sd):
        for d in sorted(os.listdir(sd)):
            mp = os.path.join(sd, d, "meta.json")
            if os.path.exists(mp):
                m = json.load(open(mp))
                items.append(dict(name="seeded/" + d, props=m.get("checks") or [m["property"]],
                                  patch=os.path.join(sd, d, "patch.diff"), tier=m.get("tier", "quick")))
    if a.only:
        items = [i for i in items if a.only in i["name"]]
    if a.prop:
        items = [i for i in items if a.prop in i["props"]]
    res = []
    with concurrent.futures.ThreadPoolExecutor(max_workers=a.jobs) as ex:
        for r in ex.map(run_one, items):
            res.append(r)
            print("%-45s %-8s %s" % (r["name"], r["outcome"],
                                     "; ".join("%s rc=%d %s %s" % (o[0], o[1], o[2], o[3][-200:]) for o in r.get("results", [])) or r.get("detail", "")), flush=True)
    if not a.only and not a.prop:
        out = os.path.join(ROOT, "selftest", "RESULTS-seeded.md" if a.seeded else "RESULTS-planted.md")
        with open(out, "w") as f:
            f.write("# %s changes vs. checks (tools/selftest.py%s)\n\n| change | outcome | checks (exit code, first keys) |\n|---|---|---|\n"
                    % ("Seeded" if a.seeded else "Planted", " --seeded" if a.seeded else ""))
            for r in res:
                f.write("| %s | %s | %s |\n" % (r["name"], r["outcome"], "; ".join(
                    "%s rc=%d %s" % (o[0], o[1], ", ".join(k.split(" count=")[0].replace("key=", "") for k in o[2]))
                    for o in r.get("results", [])) or r.get("detail", "")))
    missed = [r for r in res if r["outcome"] not in ("caught", "masked-as-documented")]
    print("%d planted changes, %d caught, %d not caught" % (len(res), len(res) - len(missed), len(missed)))
    return 0 if not missed else 1


if __name__ == "__main__":
    sys.exit(main())
