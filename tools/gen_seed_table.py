#!/usr/bin/env python3
"""Print a table of every kept seeded change: files touched and which checks catch it (from selftest/RESULTS-seeded.md)."""
import json, os, re
ROOT = os.path.dirname(os.path.dirname(os.path.abspath(__file__)))
res = {}
for l in open(os.path.join(ROOT, "selftest", "RESULTS-seeded.md")):
    m = re.match(r"\| seeded/(\S+) \| (\S+) \| (.*) \|$", l.strip())
    if m:
        caught = [c.split(" rc=")[0] for c in m.group(3).split("; ") if " rc=1" in c]
        res[m.group(1)] = (m.group(2), caught)
print("| seeded change | files | outcome | caught by |\n|---|---|---|---|")
def key(d):
    a, b = d.split("-"); return (a, int(b))
for d in sorted(os.listdir(os.path.join(ROOT, "seeded")), key=key):
    p = os.path.join(ROOT, "seeded", d)
    files = sorted(set(re.findall(r"^\+\+\+ b/src/allmydata/(\S+)", open(os.path.join(p, "patch.diff")).read(), re.M)))
    meta = json.load(open(os.path.join(p, "meta.json")))
    out, caught = res.get(d, ("not run", []))
    if meta.get("verdict", "").startswith("not caught by design"):
        out = "not a violation on this tree (see meta.json)"
    print("| %s | %s | %s | %s |" % (d, ", ".join(files), out, ", ".join(caught)))
