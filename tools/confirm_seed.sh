#!/bin/sh
# usage: tools/confirm_seed.sh C07 1   -- confirm a seeded change delivered in /tmp/seed/<ID>-out/
# clean tree: demo passes; patched tree: demo fails and the 151-test baseline is unchanged.
SEEDROOT=${SEEDROOT:-/tmp/seed}; ID=$1; N=$2; OUT=$SEEDROOT/$ID-out; WT=/var/tmp/confirm-$ID-$N; CWD=/var/tmp/confirm-cwd-$ID-$N
rm -rf $CWD; mkdir -p $CWD
git -C /repo worktree add -q $WT HEAD || exit 2
run_demo() { (cd $CWD && sed "s#$SEEDROOT/$ID/#$WT/#g; s#$SEEDROOT/$ID\b#$WT#g" $OUT/demo$N.py > $CWD/demo$N.py && ln -sf demo$N.py $CWD/demo.py && if head -8 $CWD/demo$N.py | grep -q "twisted.trial"; then RUN="/venv/bin/python -B -m twisted.trial"; elif head -5 $CWD/demo$N.py | grep -q pytest; then RUN="/venv/bin/python -B -m pytest -q -p no:cacheprovider --timeout=600"; else RUN="/venv/bin/python -B"; fi; PYTHONPATH=$WT/src:/var/tmp/stubs timeout 900 $RUN $CWD/demo$N.py > $CWD/demo.log 2>&1; echo $?); }
R1=$(run_demo)
(cd $WT && git apply $OUT/change$N.diff) || { echo "PATCH DOES NOT APPLY"; git -C /repo worktree remove --force $WT; exit 2; }
R2=$(run_demo)
T=$(cd $WT && /venv/bin/python -m pytest -q -p no:cacheprovider --timeout=900 --continue-on-collection-errors 2>&1 | tail -1)
(cd $WT && git checkout -q -- . )
git -C /repo worktree remove --force $WT; git -C /repo worktree prune
echo "$ID-$N: demo clean exit=$R1, demo patched exit=$R2, baseline with patch: $T"
tail -3 $CWD/demo.log
rm -rf $CWD
