#!/bin/sh
# usage: tools/make_seed_round.sh /tmp/seed3 C01 C02 ...   -- worktree + PROMPT.md (with the already-kept changes listed) per property
ROOTD=$1; shift
for id in "$@"; do
 git -C /repo worktree add --detach $ROOTD/$id HEAD >/dev/null 2>&1; mkdir -p $ROOTD/$id-out
 python3 /verif/tools/seed_prompt.py $id | sed "s#/tmp/seed/#$ROOTD/#g" > $ROOTD/$id-out/PROMPT.md
 cat >> $ROOTD/$id-out/PROMPT.md <<'EOT'


NOTE: never use `git stash` (the stash is shared between all worktrees of this repository and other people are working in sibling worktrees); to switch between clean and patched trees use `git diff > file; git checkout -- .; git apply file`. The test suite leaves two untracked directories (allmydata.test.test_auth/, allmydata.test.test_configutil/) in the worktree root when run from there: remove them afterwards. Do not leave background processes running when you finish.

ALREADY DONE by earlier contributors (do NOT repeat these; pick different files/functions/mechanisms, and prefer parts of the property's statement they did not touch; a change in a module far from the obvious one, that still breaks this property, is especially welcome):
EOT
 for n in 1 2 3 4 5 6 7 8; do python3 - $id $n >> $ROOTD/$id-out/PROMPT.md <<'PY'
import json,sys,re
d='/verif/seeded/%s-%s'%(sys.argv[1],sys.argv[2])
try:
    m=json.load(open(d+'/meta.json'))
    files=sorted(set(re.findall(r'^\+\+\+ b/(\S+)',open(d+'/patch.diff').read(),re.M)))
    print("- %s: %s"%(", ".join(files), m.get("needs_to_manifest","")[:400].replace("\n"," ")))
except Exception as e: pass
PY
 done
done
