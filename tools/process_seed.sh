#!/bin/sh
# usage: tools/process_seed.sh C28 [C22 C29 ...extra checks]  -- confirm both changes, keep the confirmed ones, run the checks
SEEDROOT=${SEEDROOT:-/tmp/seed}; NOFFSET=${NOFFSET:-0}; export SEEDROOT NOFFSET; ID=$1; shift; EXTRA="$*"
for N in 1 2; do
  [ -f $SEEDROOT/$ID-out/change$N.diff ] || continue; M=$((N+NOFFSET))
  R=$(tools/confirm_seed.sh $ID $N 2>&1 | head -1); echo "$R"
  case "$R" in
    *"demo clean exit=0, demo patched exit=0"*|*"PATCH DOES NOT APPLY"*) echo "  -> NOT kept"; continue;;
    *"demo clean exit=0"*"151 passed"*) ;;
    *) echo "  -> NOT kept"; continue;;
  esac
  NEEDS=$(python3 - "$ID" "$N" <<'PY'
import re,sys
import os
p=os.environ.get("SEEDROOT","/tmp/seed")+"/%s-out/notes%s.md"%(sys.argv[1],sys.argv[2])
try: s=open(p).read()
except Exception: s=""
m=re.search(r"(?is)(trigger|needs?|manifest)[^\n]*\n(.{0,600})", s)
t=(m.group(2) if m else s[:400]).strip().replace("\n"," ")
print(t[:500] or "see notes.md")
PY
)
  tools/keep_seed.py $ID $N "$NEEDS" > /dev/null
  if [ -n "$EXTRA" ]; then python3 - "$ID-$M" $ID $EXTRA <<'PY'
import json,sys
p='/verif/seeded/%s/meta.json'%sys.argv[1]; m=json.load(open(p)); m["checks"]=sys.argv[2:]; json.dump(m,open(p,"w"),indent=1)
PY
  fi
  timeout 1500 python3 tools/selftest.py --seeded --only $ID-$M 2>&1 | head -1 | cut -c1-260
done
git -C /repo worktree remove --force $SEEDROOT/$ID 2>/dev/null
