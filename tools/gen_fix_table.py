#!/usr/bin/env python3
"""Print the DESIGN.md §8.2 table (fix commits in /repo joined with known_findings.json) and the §8.3 list."""
import json, subprocess, os
ROOT = os.path.dirname(os.path.dirname(os.path.abspath(__file__)))
kf = json.load(open(os.path.join(ROOT, "known_findings.json")))["findings"]
log = subprocess.run(["git", "-C", "/repo", "log", "--reverse", "--format=%h\t%s"], capture_output=True, text=True).stdout
fixes = [l.split("\t", 1) for l in log.splitlines() if "\tfix:" in l]
print("| commit | property / key | subject |\n|---|---|---|")
for h, subj in fixes:
    keys = ["%s `%s`" % (f["property"], f["key"]) for f in kf if f.get("status") == "fixed" and h.startswith(f.get("commit", "?")[:7])]
    print("| %s | %s | %s |" % (h[:7], "; ".join(keys) or "(follow-up)", subj[4:].strip()))
print("\n%d fix commits.\n" % len(fixes))
for f in kf:
    if f.get("status") == "known":
        print("* **%s `%s`** — %s" % (f["property"], f["key"], f["what"]))
