"""Planted breaks for C25 (lease semantics).  file is relative to src/allmydata.
The two `>` -> `>=` breaks are equivalent mutants (the same expiry is re-written) and are expected NOT to be caught;
they are kept in EQUIVALENT (not run by tools/selftest.py) for the record."""
IM = "storage/immutable.py"
MU = "storage/mutable.py"
IM_RENEW = ("                if allow_backdate or new_expire_time > lease.get_expiration_time():\n"
            "                    # yes\n                    lease = lease.renew(new_expire_time)\n                    with open")
MU_RENEW = ("                    if allow_backdate or new_expire_time > lease.get_expiration_time():\n"
            "                        # yes\n                        lease = lease.renew(new_expire_time)\n                        self._write")
COND = "allow_backdate or new_expire_time > lease.get_expiration_time()"
BREAKS = [
    dict(name="c25-immutable-backdating-allowed", prop="C25", file=IM, old=IM_RENEW, new=IM_RENEW.replace(COND, "True")),
    dict(name="c25-mutable-backdating-allowed", prop="C25", file=MU, old=MU_RENEW, new=MU_RENEW.replace(COND, "True")),
    dict(name="c25-immutable-duplicate-appended", prop="C25", file=IM,
         old="        try:\n            self.renew_lease(lease_info.renew_secret,\n                             lease_info.get_expiration_time())\n        except IndexError:\n            if lease_info.immutable_size()",
         new="        try:\n            raise IndexError()\n        except IndexError:\n            if lease_info.immutable_size()"),
    dict(name="c25-mutable-duplicate-appended", prop="C25", file=MU,
         old="        try:\n            self.renew_lease(lease_info.renew_secret,\n                             lease_info.get_expiration_time())\n        except IndexError:\n            self.add_lease(available_space, lease_info)",
         new="        self.add_lease(available_space, lease_info)"),
    dict(name="c25-v2-serializer-cleartext", prop="C25", file="storage/lease_schema.py",
         old="            lease = self._hash_lease_info(lease)\n",
         new="            return self._to_data(HashedLeaseInfo(lease, self._hash_secret))\n"),
    dict(name="c25-v2-hash-identity", prop="C25", file="storage/lease_schema.py",
         old="        return blake2b(secret, digest_size=32, encoder=RawEncoder)", new="        return secret"),
    dict(name="c25-mutable-unknown-renew-silent", prop="C25", file=MU,
         old="        msg += \" .\"\n        raise IndexError(msg)\n\n    def add_or_renew_lease",
         new="        msg += \" .\"\n        return\n\n    def add_or_renew_lease"),
    dict(name="c25-server-renew-swallows-error", prop="C25", file="storage/server.py",
         old="            sf.renew_lease(renew_secret, new_expire_time)\n",
         new="            try:\n                sf.renew_lease(renew_secret, new_expire_time)\n            except IndexError:\n                pass\n"),
    dict(name="c25-growth-loses-extra-leases", prop="C25", file=MU,
         old="        f.seek(new_extra_lease_offset)\n        f.write(extra_lease_data)",
         new="        f.seek(new_extra_lease_offset)\n        f.write(extra_lease_data[:4+92])"),
    dict(name="c25-renew-matches-cancel-secret", prop="C25", file=IM,
         old="            if lease.is_renew_secret(renew_secret):",
         new="            if lease.is_renew_secret(renew_secret) or lease.is_cancel_secret(renew_secret):"),
    dict(name="c25-unknown-renew-renews-first", prop="C25", file=MU,
         old="        # Return the accepting_nodeids set, to give the client a chance to\n",
         new="        with open(self.home, 'rb+') as f:\n            for (leasenum,lease) in self._enumerate_leases(f):\n                self._write_lease_record(f, leasenum, lease.renew(new_expire_time)); break\n"),
    dict(name="c25-enumerate-stops-at-first-empty-slot", prop="C25", file=MU,
         old="                data = self._read_lease_record(f, i)\n                if data is not None:\n                    yield i,data\n            except IndexError:\n                return\n",
         new="                data = self._read_lease_record(f, i)\n            except IndexError:\n                return\n            if data is None:\n                return\n            yield i,data\n"),
    dict(name="c25-mutable-cancel-blanks-next-slot-too", prop="C25", file=MU,
         old="                if lease.is_cancel_secret(cancel_secret):\n                    self._write_lease_record(f, leasenum, blank_lease)\n",
         new="                if lease.is_cancel_secret(cancel_secret):\n                    self._write_lease_record(f, leasenum, blank_lease)\n                    if leasenum + 1 < self._get_num_lease_slots(f): self._write_lease_record(f, leasenum + 1, blank_lease)\n"),
    dict(name="c25-immutable-cancel-drops-last-lease", prop="C25", file=IM,
         old="            leases = [l for l in leases if l] # remove the cancelled leases\n",
         new="            leases = [l for l in leases if l][:-1] or [l for l in leases if l]\n"),
    dict(name="c25-saturated-length-field-trusted", prop="C25", file=IM,
         old="            if (data_length < 2**32 - 1 and\n", new="            if (data_length < 2**32 and\n"),
    dict(name="c25-lease-offset-always-from-length-field", prop="C25", file=IM,
         old="            if (data_length < 2**32 - 1 and\n                0xc + data_length + num_leases * self.LEASE_SIZE <= filesize):",
         new="            if (True and\n                0xc + data_length + num_leases * self.LEASE_SIZE <= filesize):"),
]

# not run by tools/selftest.py (it reads BREAKS only): equivalent mutants, verified NOT caught, by design
EQUIVALENT = [
    dict(name="c25-immutable-gt-to-ge-EQUIVALENT", prop="C25", file=IM, old=IM_RENEW,
         new=IM_RENEW.replace("new_expire_time > lease", "new_expire_time >= lease")),
    dict(name="c25-mutable-gt-to-ge-EQUIVALENT", prop="C25", file=MU, old=MU_RENEW,
         new=MU_RENEW.replace("new_expire_time > lease", "new_expire_time >= lease")),
]
