"""Planted breaks for C27 (share crawler coverage).  file is relative to src/allmydata.
NOTE: while key lease-checker-resume-histogram-not-a-dict is unfixed in /repo the check exits 1 on the base already;
the outcomes recorded in vf/checks/c27.py MUST_CATCH were obtained on a base with that fix applied."""
C = "storage/crawler.py"
BREAKS = [
    dict(name="c27-resume-le-to-lt", prop="C27", file=C,
         old="            if last_complete is not None and bucket <= last_complete:",
         new="            if last_complete is not None and bucket < last_complete:"),
    dict(name="c27-last-complete-bucket-not-reset-at-cycle-end", prop="C27", file=C,
         old="        state[\"last-complete-bucket\"] = None\n        state[\"last-cycle-finished\"] = cycle",
         new="        state[\"last-cycle-finished\"] = cycle"),
    dict(name="c27-cycle-counter-incremented-twice", prop="C27", file=C,
         old="                state[\"current-cycle\"] = state[\"last-cycle-finished\"] + 1",
         new="                state[\"current-cycle\"] = state[\"last-cycle-finished\"] + 2"),
    dict(name="c27-bucket-cache-reused-across-prefixes", prop="C27", file=C,
         old="            if i == self.bucket_cache[0]:", new="            if self.bucket_cache[0] is not None:"),
    dict(name="c27-state-file-written-in-place", prop="C27", file=C,
         old="        tmpfile = self._path.siblingExtension(\".tmp\")\n        _dump_json_to_file(data, tmpfile)\n        fileutil.move_into_place(tmpfile.path, self._path.path)",
         new="        _dump_json_to_file(data, self._path)"),
    dict(name="c27-timeslice-check-before-recording-bucket", prop="C27", file=C,
         old="            self.state[\"last-complete-bucket\"] = bucket\n            if time.time() >= start_slice + self.cpu_slice:\n                raise TimeSliceExceeded()",
         new="            if time.time() >= start_slice + self.cpu_slice:\n                raise TimeSliceExceeded()\n            self.state[\"last-complete-bucket\"] = bucket"),
    dict(name="c27-prefix-marked-complete-before-processing", prop="C27", file=C,
         old="            self.process_prefixdir(cycle, prefix, prefixdir,\n                                   buckets, start_slice)\n            self.last_complete_prefix_index = i\n",
         new="            self.last_complete_prefix_index = i\n            self.process_prefixdir(cycle, prefix, prefixdir,\n                                   buckets, start_slice)\n"),
    dict(name="c27-last-prefix-index-not-reset-at-cycle-end", prop="C27", file=C,
         old="        # yay! we finished the whole cycle\n        self.last_complete_prefix_index = -1\n",
         new="        # yay! we finished the whole cycle\n"),
]
