"""Planted breaks for C34 (introducer announcements authentic and fresh).  `file` is relative to src/allmydata."""

BREAKS = []


def brk(name, file, old, new, note=""):
    BREAKS.append(dict(name=name, prop="C34", file=file, old=old, new=new, tier="quick", note=note))


C = "introducer/client.py"
brk("c34-client-equal-seqnum-accepted", C, 'if ann["seqnum"] <= old["seqnum"]:', 'if ann["seqnum"] < old["seqnum"]:')
brk("c34-client-seqnum-comparison-inverted", C, 'if ann["seqnum"] <= old["seqnum"]:', 'if ann["seqnum"] >= old["seqnum"]:')
brk("c34-client-seqnum-rule-dropped", C, '            if "seqnum" in old:', '            if False:')
brk("c34-client-duplicate-test-off", C, 'and self._inbound_announcements[index][0] == ann):', 'and False):')
brk("c34-client-one-slot-for-all-keys", C, 'index = (service_name, key_s)', 'index = (service_name, b"")')
brk("c34-client-late-subscriber-not-caught-up", C,
    '            if servicename == service_name:\n                obs.notify(key_s, ann)',
    '            if False:\n                obs.notify(key_s, ann)')
brk("c34-signature-not-verified", "introducer/common.py",
    '    ed25519.verify_signature(claimed_key, sig_bytes, msg)', '    pass')
brk("c34-attributed-to-another-key", "introducer/common.py",
    '    key_vs = claimed_key_vs', '    key_vs = claimed_key_vs[:-1] + b"a"')
brk("c34-signature-checked-against-first-message-only", "introducer/common.py",
    '    ed25519.verify_signature(claimed_key, sig_bytes, msg)',
    '    _seen = unsign_from_foolscap.__dict__.setdefault("seen", set())\n'
    '    if sig_vs not in _seen:\n'
    '        ed25519.verify_signature(claimed_key, sig_bytes, msg)\n'
    '        _seen.add(sig_vs)',
    note="process-wide memo of verified signature strings: a re-used signature is not checked against the new message")
S = "introducer/server.py"
brk("c34-server-equal-seqnum-accepted", S, 'if ann["seqnum"] <= old_ann["seqnum"]:', 'if ann["seqnum"] < old_ann["seqnum"]:')
brk("c34-server-seqnum-rule-dropped", S, '                if "seqnum" in old_ann:', '                if False:')
