"""Planted breaks for C48 (configuration values parse to their documented meaning; printed sizes parse back).

The parser breaks of vf/checks/c48.py's MUST_CATCH block are re-run by hand by the author; the entries here are
breaks of the *printer* that only the print-then-parse oracle on rounded values can see.
"""
BREAKS = []


def brk(name, file, old, new, note=""):
    BREAKS.append(dict(name=name, prop="C48", file=file, old=old, new=new, note=note))


brk("c48-abbreviate-space-no-carry", "util/abbreviate.py",
    '        return "%.2f %s%s" % (count, suffix, isuffix)',
    '        return "%d.%02d %s%s" % (int(count), round((count - int(count)) * 100), suffix, isuffix)',
    "twin of seeded/C48-4: hundredths that round up to 100 are not carried (1999999 -> '1.100 MB')")
brk("c48-abbreviate-space-si-divides-by-1024", "util/abbreviate.py",
    '        return r(s/U, "k")',
    '        return r(s/1024.0, "k")',
    "SI kilobytes computed with 1024: 2000 -> '1.95 kB' parses back to 1950")
brk("c48-abbreviate-space-three-decimals-truncated", "util/abbreviate.py",
    '        return "%.2f %s%s" % (count, suffix, isuffix)',
    '        return "%s %s%s" % (("%.3f" % count)[:-1], suffix, isuffix)',
    "two decimals obtained by cutting the third instead of rounding: off by up to a whole last digit")
