"""Planted breaks for C48 (configuration values parse to their documented meaning; printed sizes parse back).

The parser breaks of vf/checks/c48.py's MUST_CATCH block are re-run by hand by the author; the entries here are
breaks of the *printer* that only the print-then-parse oracle on rounded values can see.
"""
BREAKS = []


def brk(name, file, old, new, note=""):
    BREAKS.append(dict(name=name, prop="C48", file=file, old=old, new=new, note=note))


brk("c48-abbreviate-space-no-carry", "util/abbreviate.py",
    '        return "%.2f %s%s" % (count, suffix, isuffix)',
    '        return "%d.%02d %s%s" % (int(count), round((count - int(count)) * 100), suffix, isuffix)',
    "twin of seeded/C48-4: hundredths that round up to 100 are not carried (1999999 -> '1.100 MB')")
brk("c48-abbreviate-space-si-divides-by-1024", "util/abbreviate.py",
    '        return r(s/U, "k")',
    '        return r(s/1024.0, "k")',
    "SI kilobytes computed with 1024: 2000 -> '1.95 kB' parses back to 1950")
brk("c48-abbreviate-space-three-decimals-truncated", "util/abbreviate.py",
    '        return "%.2f %s%s" % (count, suffix, isuffix)',
    '        return "%s %s%s" % (("%.3f" % count)[:-1], suffix, isuffix)',
    "two decimals obtained by cutting the third instead of rounding: off by up to a whole last digit")

# ---- round 3: twins of seeded/C48-6 (the web pages' size printer, web.common.abbreviate_size)
brk("c48-web-abbreviate-size-gb-divisor", "web/common.py",
    '        return u"%1.2fGB" % (r/1000000000)',
    '        return u"%1.2fGB" % (r/100000000)',
    "twin of seeded/C48-6: a tier with the wrong divisor prints ten times too large ('15.00GB' for 1.5 GB)")
brk("c48-web-abbreviate-size-kb-is-1024", "web/common.py",
    '        return u"%.1fkB" % (r/1000)',
    '        return u"%.1fkB" % (r/1024)',
    "kB tier divides by 1024 but prints the SI unit")
brk("c48-web-abbreviate-size-mb-tier-labelled-kb", "web/common.py",
    '        return u"%1.2fMB" % (r/1000000)',
    '        return u"%1.2fkB" % (r/1000000)',
    "MB tier printed with the kB suffix")
