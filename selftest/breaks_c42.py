"""Planted breaks for C42 (backup database).  `file` is relative to src/allmydata."""

BREAKS = []


def brk(name, old, new, file="scripts/backupdb.py", note=""):
    BREAKS.append(dict(name=name, prop="C42", file=file, old=old, new=new, tier="quick", note=note))


brk("c42-ctime-dropped", "             or last_ctime != ctime) # the file has been changed", "             ) # the file has been changed")
brk("c42-mtime-dropped", "             or last_mtime != mtime\n", "\n")
brk("c42-size-dropped", "        if ((last_size != size\n             or not use_timestamps", "        if ((not use_timestamps")
brk("c42-mtime-compared-with-less-than", "or last_mtime != mtime", "or last_mtime < mtime")
brk("c42-use-timestamps-ignored", "             or not use_timestamps\n", "\n")
brk("c42-changed-clause-anded-with-forgot-clause",
    "            or (not row2) # we somehow forgot where we put the file last time\n            ):",
    "            and (not row2) # we somehow forgot where we put the file last time\n            ):")
brk("c42-reupload-keeps-old-stat",
    '" SET size=?, mtime=?, ctime=?, fileid=?"\n                                " WHERE path=?",\n'
    '                                (size, mtime, ctime, fileid, path))',
    '" SET fileid=?"\n                                " WHERE path=?",\n                                (fileid, path))')
brk("c42-cap-looked-up-by-constant-fileid", "(last_fileid, last_fileid))", "(1, 1))")
brk("c42-dirhash-names-only", "netstring(name_utf8)+netstring(cap)", "netstring(name_utf8)")
brk("c42-dirhash-caps-only", "netstring(name_utf8)+netstring(cap)", "netstring(cap)")
brk("c42-dirhash-undelimited", "netstring(name_utf8)+netstring(cap)", "name_utf8+cap")
brk("c42-dirhash-names-and-caps-sorted-separately",
    "        entries.sort()\n",
    "        entries = [list(t) for t in zip(sorted(e[0] for e in entries), sorted(e[1] for e in entries))]\n")
brk("c42-abspath-memoised", "def abspath_expanduser_unicode(path, base=None, long_path=True):",
    "import functools\n@functools.lru_cache(maxsize=4096)\ndef abspath_expanduser_unicode(path, base=None, long_path=True):",
    file="util/fileutil.py", note="relative and ~ names resolve as under the cwd/HOME of their first use")
brk("c42-path-not-made-absolute", "        path = abspath_expanduser_unicode(path)\n\n        # TODO: consider using get_pathinfo.",
    "        path = os.path.basename(path)\n\n        # TODO: consider using get_pathinfo.",
    note="records keyed by the bare file name: same-named files in different directories share a record")
