"""Planted breaks for C41 (web API authority).  file is relative to src/allmydata.

Defence in depth makes several obvious breaks harmless: a node built from a read-only cap has no write key, so even
with every is_readonly() test removed the publish path dies on `assert not self.is_readonly()` in MutableFileVersion
(and the storage servers would reject the write enabler anyway): the request still fails with 5xx and no share
changes, i.e. the property still HOLDS.  Those are listed with expect="masked" (documentation; tools/selftest.py
reports them as not caught, correctly).  The breaks that really violate the property give the web layer a node with
more authority than the capability in the URL (node-cache confusion) or turn the refusal into a success status."""
BREAKS = [
    # --- really violate the property
    dict(name="c41-nodecache-ignores-authority", prop="C41", file="nodemaker.py",
         old="        if deep_immutable:\n            memokey = b\"I\" + bigcap\n        else:\n            memokey = b\"M\" + bigcap\n",
         new="        memokey = b\"M\" + bigcap.split(b\":\")[-1]\n",
         note="read-only cap gets the cached writeable node: PUT ?t=uri&replace=true into a read-only dir succeeds, unlink/rename succeed, t=json leaks rw_uri"),
    dict(name="c41-urihandler-upgrades-to-cached-writeable-node", prop="C41", file="web/root.py",
         old="            node = self.client.create_node_from_uri(name)\n            return directory.make_handler_for(node, self.client)",
         new="            node = self.client.create_node_from_uri(name)\n"
             "            for other in list(self.client.nodemaker._node_cache.values()):\n"
             "                if other.get_storage_index() == node.get_storage_index() and not other.is_readonly():\n"
             "                    node = other\n"
             "            return directory.make_handler_for(node, self.client)",
         note="web layer only: /uri/<readcap> served with the writeable node"),
    dict(name="c41-notwriteable-reported-as-200", prop="C41", file="web/common.py",
         old="    if isinstance(exc, FileTooLargeError):", new="    if type(exc).__name__ == \"NotWriteableError\":\n        return (\"not writeable\", http.OK)\n    if isinstance(exc, FileTooLargeError):",
         note="refusal answered with a success status"),
    dict(name="c41-readonly-put-check-inverted", prop="C41", file="web/filenode.py",
         old="                if self.node.is_readonly():\n                    raise WebError(\"PUT to a mutable file: replace or update\"",
         new="                if self.node.is_readonly():\n                    return self.node.get_uri()\n                if False:\n                    raise WebError(\"PUT to a mutable file: replace or update\"",
         note="PUT to a read-only mutable file pretends success"),
    # --- masked by the second layer (property still holds); kept as documentation
    dict(name="c41-dirnode-delete-unchecked", prop="C41", file="dirnode.py", expect="masked",
         old="        if self.is_readonly():\n            return defer.fail(NotWriteableError())\n        deleter = Deleter(", new="        deleter = Deleter("),
    dict(name="c41-dirnode-move-unchecked", prop="C41", file="dirnode.py",
         note="relink out of a read-only directory into a writeable to_dir: answered 500, but the destination has gained the link "
              "(half-performed move) -> refused-request-changed-grid; same mechanism as seeded/C41-1",
         old="        if self.is_readonly() or new_parent.is_readonly():\n            return defer.fail(NotWriteableError())\n", new=""),
    dict(name="c41-dirnode-set_node-unchecked", prop="C41", file="dirnode.py", expect="masked",
         old="        precondition(IFilesystemNode.providedBy(child), child)\n\n        if self.is_readonly():\n            return defer.fail(NotWriteableError())\n",
         new="        precondition(IFilesystemNode.providedBy(child), child)\n\n"),
    dict(name="c41-filenode-put-readonly-check-removed", prop="C41", file="web/filenode.py", expect="masked",
         old="                if self.node.is_readonly():\n                    raise WebError(\"PUT to a mutable file: replace or update\"",
         new="                if False:\n                    raise WebError(\"PUT to a mutable file: replace or update\""),
]
