"""Planted breaks for C05 (convergent capabilities and literal files).  `file` is relative to src/allmydata."""

BREAKS = []


def brk(name, file, old, new, note=""):
    BREAKS.append(dict(name=name, prop="C05", file=file, old=old, new=new, tier="quick", note=note))


# ---- convergence key derivation
brk("c05-hash-max-segsize-instead-of-effective", "immutable/upload.py",
    "            enckey_hasher = convergence_hasher(k, n, segsize, self.convergence)\n",
    "            enckey_hasher = convergence_hasher(k, n, self.max_segment_size or self.default_max_segment_size, self.convergence)\n")
brk("c05-params-tag-omits-n", "util/hashutil.py",
    "param_tag = netstring(b\"%d,%d,%d\" % (k, n, segsize))", "param_tag = netstring(b\"%d,%d\" % (k, segsize))")
brk("c05-params-tag-omits-k", "util/hashutil.py",
    "param_tag = netstring(b\"%d,%d,%d\" % (k, n, segsize))", "param_tag = netstring(b\"%d,%d\" % (n, segsize))")
brk("c05-params-tag-omits-segsize", "util/hashutil.py",
    "param_tag = netstring(b\"%d,%d,%d\" % (k, n, segsize))", "param_tag = netstring(b\"%d,%d\" % (k, n))")
brk("c05-secret-not-hashed", "util/hashutil.py",
    "tag = CONVERGENT_ENCRYPTION_TAG + netstring(convergence) + param_tag",
    "tag = CONVERGENT_ENCRYPTION_TAG + netstring(b\"\") + param_tag")
brk("c05-key-hasher-drops-last-byte-of-full-blocks", "immutable/upload.py",
    "                enckey_hasher.update(data)\n",
    "                enckey_hasher.update(data[:BLOCKSIZE-1])\n",
    note="only files of at least 64 KiB are affected (chunk-boundary bug in _get_encryption_key_convergent)")
brk("c05-key-hasher-stops-at-short-read", "immutable/upload.py",
    "                if not data:\n                    break\n                enckey_hasher.update(data)\n",
    "                if not data:\n                    break\n                enckey_hasher.update(data)\n                if len(data) < BLOCKSIZE:\n                    break\n",
    note="treats a short read as EOF: only file objects with short reads before EOF are affected")
brk("c05-key-hasher-does-not-rewind", "immutable/upload.py",
    "            enckey_hasher = convergence_hasher(k, n, segsize, self.convergence)\n            f.seek(0)\n",
    "            enckey_hasher = convergence_hasher(k, n, segsize, self.convergence)\n            f.seek(1)\n")
brk("c05-convergent-tag-changed", "util/hashutil.py",
    "CONVERGENT_ENCRYPTION_TAG = b\"allmydata_immutable_content_to_key_with_added_secret_v1+\"",
    "CONVERGENT_ENCRYPTION_TAG = b\"allmydata_immutable_content_to_key_with_added_secret_v2+\"")
# ---- storage index
brk("c05-storage-index-tag-changed", "util/hashutil.py",
    "STORAGE_INDEX_TAG = b\"allmydata_immutable_key_to_storage_index_v1\"",
    "STORAGE_INDEX_TAG = b\"allmydata_immutable_key_to_storage_index_v2\"")
brk("c05-storage-index-from-half-the-key", "util/hashutil.py",
    "    return tagged_hash(STORAGE_INDEX_TAG, key, 16)", "    return tagged_hash(STORAGE_INDEX_TAG, key[:8], 16)")
# ---- literal threshold and content
brk("c05-lit-threshold-strict", "immutable/upload.py",
    "if size <= self.URI_LIT_SIZE_THRESHOLD:", "if size < self.URI_LIT_SIZE_THRESHOLD:")
brk("c05-lit-threshold-56", "immutable/upload.py",
    "    URI_LIT_SIZE_THRESHOLD = 55\n", "    URI_LIT_SIZE_THRESHOLD = 56\n")
brk("c05-lit-keeps-first-chunk-only", "immutable/upload.py",
    "d.addCallback(lambda data: uri.LiteralFileURI(b\"\".join(data)))",
    "d.addCallback(lambda data: uri.LiteralFileURI(b\"\".join(data[:1])))")
# ---- random keys
brk("c05-random-key-fixed", "immutable/upload.py",
    "            self._key = os.urandom(16)\n", "            self._key = b\"\\x00\" * 16\n")
brk("c05-none-falls-back-to-empty-secret", "immutable/upload.py",
    "        if self.convergence is not None:\n            return self._get_encryption_key_convergent()\n",
    "        if self.convergence is None:\n            self.convergence = b\"\"\n        if self.convergence is not None:\n            return self._get_encryption_key_convergent()\n")
# ---- the directory entry point (nodemaker.py create_immutable_directory)
brk("c05-dir-empty-secret-treated-as-not-given", "nodemaker.py",
    "        if convergence is None:\n            convergence = self.secret_holder.get_convergence_secret()\n        packed = pack_children(children, None, deep_immutable=True)\n",
    "        if not convergence:\n            convergence = self.secret_holder.get_convergence_secret()\n        packed = pack_children(children, None, deep_immutable=True)\n",
    note="same as seeded/C05-8: b'' silently replaced by the node's private secret")
brk("c05-dir-ignores-given-secret", "nodemaker.py",
    "        if convergence is None:\n            convergence = self.secret_holder.get_convergence_secret()\n        packed = pack_children(children, None, deep_immutable=True)\n",
    "        convergence = self.secret_holder.get_convergence_secret()\n        packed = pack_children(children, None, deep_immutable=True)\n")
brk("c05-dir-default-secret-is-empty", "nodemaker.py",
    "        if convergence is None:\n            convergence = self.secret_holder.get_convergence_secret()\n        packed = pack_children(children, None, deep_immutable=True)\n",
    "        if convergence is None:\n            convergence = b\"\"\n        packed = pack_children(children, None, deep_immutable=True)\n")
brk("c05-dir-default-secret-is-random-key", "nodemaker.py",
    "        uploadable = Data(packed, convergence)\n        # XXX should pass reactor arg\n",
    "        uploadable = Data(packed, convergence or None)\n        # XXX should pass reactor arg\n",
    note="b'' turns into convergence=None (random key): equal inputs give different caps")
