"""Planted breaks for C32 (server order; upload permission).  `file` is relative to src/allmydata."""

BREAKS = []


def brk(name, file, old, new, note=""):
    BREAKS.append(dict(name=name, prop="C32", file=file, old=old, new=new, tier="quick", note=note))


brk("c32-permutation-without-storage-index", "util/hashutil.py",
    "hashlib.sha1(peer_selection_index + server_permutation_seed)", "hashlib.sha1(server_permutation_seed)")
brk("c32-for-upload-ignored", "storage_client.py",
    "        if for_upload:\n            # print", "        if False:\n            # print")
brk("c32-upload-filter-applied-to-reads", "storage_client.py",
    "        if for_upload:\n            # print", "        if True:\n            # print")
brk("c32-preferred-ignored", "storage_client.py",
    "is_unpreferred = server not in preferred_servers", "is_unpreferred = False")
brk("c32-order-reversed", "storage_client.py",
    "return sorted(connected_servers, key=_permuted)", "return sorted(connected_servers, key=_permuted, reverse=True)")
brk("c32-no-sort", "storage_client.py",
    "return sorted(connected_servers, key=_permuted)", "return list(connected_servers)")
brk("c32-announced-seed-ignored", "storage_client.py",
    'if "permutation-seed-base32" in ann:', 'if "permutation-seed-base32x" in ann:')
brk("c32-connected-is-all-known", "storage_client.py",
    "return frozenset([s for s in self.servers.values() if s.is_connected()])", "return frozenset(self.servers.values())")
brk("c32-verifier-bound-to-wrong-identity", "storage_client.py",
    '"pub-{}".format(str(server_id, "ascii")).encode("ascii"),', '"pub-{}".format(str(server_id, "ascii")).upper().encode("ascii"),')
brk("c32-update-goal-skips-permission", "mutable/publish.py",
    "if not server.upload_permitted():", "if False:")
brk("c32-immutable-upload-without-for-upload", "immutable/upload.py",
    "get_servers_for_psi(storage_index, for_upload=True)", "get_servers_for_psi(storage_index)")
brk("c32-http-lease-seed-is-permutation-seed", "storage_client.py",
    "        # Apparently this is what Foolscap version above does?!\n        return self._tubid",
    "        # Apparently this is what Foolscap version above does?!\n        return self._permutation_seed")
brk("c32-http-upload-permitted-always", "storage_client.py",
    "        if self._grid_manager_verifier is None:\n            return True\n        return self._grid_manager_verifier()\n\n    # Special methods",
    "        return True\n\n    # Special methods",
    note="HTTPNativeStorageServer.upload_permitted ignores the certificate verifier")
