"""Planted breaks for C33 (grid-manager certificates).  `file` is relative to src/allmydata."""

BREAKS = []


def brk(name, old, new, note=""):
    BREAKS.append(dict(name=name, prop="C33", file="grid_manager.py", old=old, new=new, tier="quick", note=note))


brk("c33-expiry-inverted", "if expires > now:", "if expires < now:")
brk("c33-expiry-never-checked", "if expires > now:", "if True:")
brk("c33-valid-at-expiry-instant", "if expires > now:", "if expires >= now:")
brk("c33-subject-comparison-dropped", "if pc == public_key:", "if True:")
brk("c33-bad-signature-ignored", "    except ed25519.BadSignature:\n        return None", "    except ed25519.BadSignature:\n        pass")
brk("c33-only-first-manager-key", "        for key in keys:", "        for key in keys[:1]:")
brk("c33-no-keys-denies", "return lambda: True", "return lambda: False")
brk("c33-first-matching-cert-decides",
    "                if expires > now:\n                    # not-expired\n                    return True",
    "                return expires > now")


def brk_sc(name, old, new, note=""):
    BREAKS.append(dict(name=name, prop="C33", file="storage_client.py", old=old, new=new, tier="quick", note=note))


# ---- broker level (storage_client.py): only the C33 broker workload sees these
brk_sc("c33-broker-native-server-always-permitted",
       "        if self._grid_manager_verifier is None:\n            return True\n        return self._grid_manager_verifier()\n\n"
       "    def get_permutation_seed(self):\n        return self._storage.permutation_seed",
       "        return True\n\n    def get_permutation_seed(self):\n        return self._storage.permutation_seed")
brk_sc("c33-broker-verifier-built-without-keys",
       "            self.storage_client_config.grid_manager_keys,\n            certificates,",
       "            [],\n            certificates,",
       note="configured grid-manager keys never reach the verifier: every announced server is permitted")
brk_sc("c33-broker-verifier-bound-to-other-identity",
       '"pub-{}".format(str(server_id, "ascii")).encode("ascii"),',
       '"pub-{}".format(str(server_id, "ascii"))[:-1].encode("ascii") + b"a",')
brk_sc("c33-broker-reannouncement-ignored-when-only-certificates-differ",
       "            return old.get_announcement() == ann\n",
       "            return ({k: v for k, v in old.get_announcement().items() if k != \"grid-manager-certificates\"}\n"
       "                    == {k: v for k, v in ann.items() if k != \"grid-manager-certificates\"})\n",
       note="a re-announcement that only changes the certificate list is treated as a duplicate: permission keeps following the first one")
