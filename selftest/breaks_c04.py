"""Planted breaks for C04 (random-access and concurrent immutable reads).  `file` is relative to src/allmydata."""

BREAKS = []


def brk(name, file, old, new, note=""):
    BREAKS.append(dict(name=name, prop="C04", file=file, old=old, new=new, tier="quick", note=note))


# ---- AES-CTR positioning (immutable/filenode.py DecryptingConsumer.__init__)
brk("c04-ctr-offset-small-mod8", "immutable/filenode.py",
    "offset_small = offset % 16", "offset_small = offset % 8")
brk("c04-ctr-offset-big-plus1-when-positive", "immutable/filenode.py",
    "offset_big = offset // 16", "offset_big = offset // 16 + (1 if offset > 0 else 0)")
brk("c04-ctr-big-small-swapped", "immutable/filenode.py",
    "        offset_big = offset // 16\n        offset_small = offset % 16\n",
    "        offset_small = offset // 16\n        offset_big = offset % 16\n")
# ---- per-read segmentation (immutable/downloader/segmentation.py)
brk("c04-got-segment-slice-one-too-long", "immutable/downloader/segmentation.py",
    "desired_data = segment[offset_in_segment:offset_in_segment+o[1]]",
    "desired_data = segment[offset_in_segment:offset_in_segment+o[1]+1]")
brk("c04-got-segment-slice-starts-one-early", "immutable/downloader/segmentation.py",
    "offset_in_segment = self._offset - segment_start\n",
    "offset_in_segment = max(0, self._offset - segment_start - 1)\n")
brk("c04-wanted-segnum-rounds-up-at-boundary", "immutable/downloader/segmentation.py",
    "wanted_segnum = self._offset // segment_size", "wanted_segnum = (self._offset + 1) // segment_size")
brk("c04-resume-does-not-fetch", "immutable/downloader/segmentation.py",
    "        self._hungry = True\n        eventually(self._maybe_fetch_next)\n",
    "        self._hungry = True\n")
brk("c04-stop-does-not-cancel-segment-request", "immutable/downloader/segmentation.py",
    "        if self._cancel_segment_request:\n            self._cancel_segment_request.cancel()\n",
    "        if False:\n            self._cancel_segment_request.cancel()\n",
    note="the cancelled read's segment still arrives and is written to the consumer after stopProducing")
brk("c04-stop-errbacks-generic-error", "immutable/downloader/segmentation.py",
    "e = DownloadStopped(\"our Consumer called stopProducing()\")",
    "e = RuntimeError(\"our Consumer called stopProducing()\")")
# ---- shared request queue (immutable/downloader/node.py)
brk("c04-cancel-removes-every-other-request", "immutable/downloader/node.py",
    "        self._segment_requests = [t for t in self._segment_requests\n                                  if t[2] != cancel]\n",
    "        self._segment_requests = [t for t in self._segment_requests\n                                  if t[2] == cancel]\n")
brk("c04-cancel-removes-first-request-for-same-segment", "immutable/downloader/node.py",
    "        self._segment_requests = [t for t in self._segment_requests\n                                  if t[2] != cancel]\n",
    "        victim = [t for t in self._segment_requests if t[2] == cancel]\n"
    "        if victim:\n"
    "            first = [t for t in self._segment_requests if t[0] == victim[0][0]][0]\n"
    "            self._segment_requests = [t for t in self._segment_requests if t is not first]\n")
brk("c04-deliver-ignores-cancel", "immutable/downloader/node.py",
    "        if c.active:\n            c.active = False # it is now too late to cancel\n",
    "        if True:\n            c.active = False # it is now too late to cancel\n",
    note="a request cancelled between _extract_requests and _deliver still gets its segment")
brk("c04-extract-requests-retires-lower-segments-too", "immutable/downloader/node.py",
    "                  if segnum0 == segnum]\n        self._segment_requests = [t for t in self._segment_requests\n                                  if t[0] != segnum]",
    "                  if segnum0 <= segnum]\n        self._segment_requests = [t for t in self._segment_requests\n                                  if t[0] > segnum]")
brk("c04-read-does-not-clip-size-at-eof", "immutable/downloader/node.py",
    "size = max(0, min(size, self._verifycap.size-offset))", "size = max(0, size)")
brk("c04-read-size-none-means-size-minus-offset-plus1", "immutable/downloader/node.py",
    "        if size is None:\n            size = self._verifycap.size\n        # ignore overruns",
    "        if size is None:\n            size = self._verifycap.size - 1\n        # ignore overruns")
# ---- literal files (immutable/literal.py)
brk("c04-literal-slice-end-is-size", "immutable/literal.py",
    "data = self.u.data[offset:offset+size]", "data = self.u.data[offset:size]")
brk("c04-literal-size-none-skips-a-byte", "immutable/literal.py",
    "data = self.u.data[offset:]", "data = self.u.data[offset+1:] if offset else self.u.data")
brk("c04-literal-ignores-offset", "immutable/literal.py",
    "data = self.u.data[offset:offset+size]", "data = self.u.data[:size]")
