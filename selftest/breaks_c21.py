"""Planted breaks for C21 (deep traversal visits every reachable object exactly once)."""
BREAKS = [
    dict(name="c21-found-keyed-by-node-object", prop="C21", file="dirnode.py",
         old="            verifier = child.get_verify_cap()\n            # allow LIT files (for which verifier==None) to be processed\n"
             "            if (verifier is not None) and (verifier in found):\n                continue\n            found.add(verifier)\n",
         new="            verifier = child.get_verify_cap()\n            # allow LIT files (for which verifier==None) to be processed\n"
             "            if (verifier is not None) and (id(child) in found):\n                continue\n            found.add(id(child))\n"),
    dict(name="c21-root-not-preseeded", prop="C21", file="dirnode.py",
         old="        found = set([self.get_verify_cap()])\n",
         new="        found = set()\n"),
    dict(name="c21-no-dedup-for-files", prop="C21", file="dirnode.py",
         old="            if (verifier is not None) and (verifier in found):\n",
         new="            if (verifier is not None) and (verifier in found) and IDirectoryNode.providedBy(child):\n"),
    dict(name="c21-lit-deduplicated", prop="C21", file="dirnode.py",
         old="            if (verifier is not None) and (verifier in found):\n",
         new="            if (verifier in found) and not IDirectoryNode.providedBy(child):\n"),
    dict(name="c21-unknown-not-reported", prop="C21", file="dirnode.py",
         old="            if isinstance(child, UnknownNode):\n                walker.add_node(child, childpath)\n                continue\n",
         new="            if isinstance(child, UnknownNode):\n                continue\n"),
    dict(name="c21-child-path-drops-parent", prop="C21", file="dirnode.py",
         old="            childpath = path + [name]\n",
         new="            childpath = path[-1:] + [name]\n"),
    dict(name="c21-stats-literal-counted-as-chk", prop="C21", file="deep_stats.py",
         old="            if isinstance(theuri, LiteralFileURI):\n",
         new="            if isinstance(theuri, LiteralFileURI) and size > 1:\n"),
    dict(name="c21-found-by-readcap", prop="C21", file="dirnode.py",
         old="            verifier = child.get_verify_cap()\n",
         new="            verifier = child.get_verify_cap() and child.get_uri()\n"),
]
