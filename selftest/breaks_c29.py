"""Planted breaks for C29 (share containers survive a server crash).

The unchanged tree already shows `immutable-lease-append-window` and
`immutable-lease-cancel-window`; every break below must add a key of its own
(listed in `expect`), which tools/selftest.py does not check -- see the
MUST_CATCH block at the bottom of vf/checks/c29.py for the recorded outcome."""

BREAKS = [
    dict(name="c29-incoming-not-cleaned", prop="C29", file="storage/server.py",
         old="        fileutil.rm_dir(self.incomingdir)\n",
         new="        pass\n",
         expect="incoming-not-empty-after-restart"),
    dict(name="c29-upload-into-final-dir", prop="C29", file="storage/server.py",
         old="            incominghome = os.path.join(self.incomingdir, si_dir, \"%d\" % shnum)\n            finalhome = os.path.join(self.sharedir, si_dir, \"%d\" % shnum)\n            if os.path.exists(finalhome):",
         new="            finalhome = os.path.join(self.sharedir, si_dir, \"%d\" % shnum)\n            incominghome = finalhome\n            if os.path.exists(finalhome):",
         expect="immutable-share-incomplete"),
    dict(name="c29-delete-removes-bucket", prop="C29", file="storage/server.py",
         old="                if os.path.exists(bucketdir) and [] == os.listdir(bucketdir):\n                    os.rmdir(bucketdir)",
         new="                if os.path.exists(bucketdir):\n                    fileutil.rm_dir(bucketdir)",
         expect="share-vanished"),
    dict(name="c29-renew-truncates-first", prop="C29", file="storage/immutable.py",
         old="                    with open(self.home, 'rb+') as f:\n                        self._write_lease_record(f, i, lease)\n                return",
         new="                    with open(self.home, 'rb+') as f:\n                        if i == self._num_leases - 1:\n                            self._truncate_leases(f, i)\n                        self._write_lease_record(f, i, lease)\n                return",
         expect="lease-op-changed-immutable-data"),
    dict(name="c29-mutable-lease-add-touches-data-length", prop="C29", file="storage/mutable.py",
         old="            self._write_num_extra_leases(f, num_extra_leases+1)\n",
         new="            self._write_num_extra_leases(f, num_extra_leases+1)\n            self._write_data_length(f, self._read_data_length(f) + 1)\n            f.flush()\n            self._write_data_length(f, self._read_data_length(f) - 1)\n",
         expect="lease-op-changed-mutable-data"),
]
