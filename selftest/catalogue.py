"""Planted breaks: each entry edits one place of a scratch copy of /repo/src so that a
property is violated while the code still imports; tools/selftest.py applies one
at a time, runs the property's check against the scratch copy (VF_REPO) and
expects exit status 1.  `file` is relative to src/allmydata."""

BREAKS = []


def brk(name, prop, file, old, new, tier="quick", note=""):
    BREAKS.append(dict(name=name, prop=prop, file=file, old=old, new=new, tier=tier, note=note))


# ---- C07 (the two defects repaired by fix: commits, re-planted)
brk("c07-shared-edge-list", "C07", "immutable/happiness_upload.py",
    "    for peer in peers:\n        indexedShares = []\n", "    indexedShares = []\n    for peer in peers:\n")
brk("c07-roundrobin-includes-ro", "C07", "immutable/happiness_upload.py",
    "peer_iter = round_robin(peers - readonly_peers)", "peer_iter = round_robin(peers | readonly_peers)")
# ---- C08
brk("c08-early-exit", "C08", "util/happinessutil.py",
    "    while augmenting_path_for(residual_graph):", "    if augmenting_path_for(residual_graph):")
# ---- C01
brk("c01-tail-pad-plus-one", "C01", "immutable/encode.py",
    "padded_tail_size = mathutil.next_multiple(tail_size,\n", "padded_tail_size = mathutil.next_multiple(tail_size + 1,\n")
brk("c01-ctr-offset", "C01", "immutable/filenode.py",
    "offset_big = offset // 16", "offset_big = (offset + 16) // 16")
# ---- C02
brk("c02-no-ciphertext-check", "C02", "immutable/downloader/node.py",
    "            self.ciphertext_hash_tree.set_hashes(leaves={segnum: h})\n            self._download_status.add_misc_event(\"CThash\"",
    "            self._download_status.add_misc_event(\"CThash\"")
brk("c02-no-ueb-hash-check", "C02", "immutable/downloader/node.py",
    "        if h != self._verifycap.uri_extension_hash:", "        if False:")
# NOT a C02 break (kept as documentation): removing only the block-hash check
# (share.py check_block) is masked by the ciphertext-hash check behind it, so no
# wrong byte reaches the reader and C02 still holds.
# ---- C46
brk("c46-active-segment-not-cleared", "C46", "immutable/downloader/node.py",
    "                # this catches failures in decode or ciphertext hash\n                self._active_segment = None\n",
    "                # this catches failures in decode or ciphertext hash\n")
brk("c46-overrun-header-not-needed", "C46", "immutable/downloader/share.py",
    "            want_it.add(0, 1024)\n            # fall through", "            want_it.add(0, 1024)\n            return\n            # fall through")
# ---- C03
brk("c03-no-diversity-escalation", "C03", "immutable/downloader/fetcher.py",
    "                # don't pull too much from a single server\n                want_more_diversity = True\n",
    "                # don't pull too much from a single server\n                want_more_diversity = False\n")
brk("c03-no-more-shares-while-pending", "C03", "immutable/downloader/finder.py",
    "        if self.pending_requests:\n            # no server, but there are still requests in flight: maybe one of\n            # them will make progress\n            return\n",
    "")
brk("c03-corrupt-block-kills-fetch", "C03", "immutable/downloader/fetcher.py",
    "        if state in (COMPLETE, CORRUPT, DEAD, BADSEGNUM):\n            self._share_observers.pop(share, None)",
    "        if state is CORRUPT:\n            self._no_more_shares = True\n        if state in (COMPLETE, CORRUPT, DEAD, BADSEGNUM):\n            self._share_observers.pop(share, None)")
brk("c03-k-minus-one-enough", "C03", "immutable/downloader/fetcher.py",
    "        if len(set(self._blocks.keys())) >= k:\n            # yay!", "        if len(set(self._blocks.keys())) >= k and False:\n            # yay!")
# ---- C17 (wire level)
brk("c17-upload-lease-from-permutation-seed", "C17", "immutable/upload.py",
    "                seed = s.get_lease_seed()", "                seed = s.get_permutation_seed()")
brk("c17-write-enabler-from-lease-seed", "C17", "mutable/filenode.py",
    "        seed = server.get_foolscap_write_enabler_seed()", "        seed = server.get_lease_seed()")
