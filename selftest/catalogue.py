"""Planted breaks: each entry edits one place of a scratch copy of /repo/src so that a
property is violated while the code still imports; tools/selftest.py applies one
at a time, runs the property's check against the scratch copy (VF_REPO) and
expects exit status 1.  `file` is relative to src/allmydata."""

BREAKS = []


def brk(name, prop, file, old, new, tier="quick", note=""):
    BREAKS.append(dict(name=name, prop=prop, file=file, old=old, new=new, tier=tier, note=note))


# ---- C07 (the two defects repaired by fix: commits, re-planted)
brk("c07-shared-edge-list", "C07", "immutable/happiness_upload.py",
    "    for peer in peers:\n        indexedShares = []\n", "    indexedShares = []\n    for peer in peers:\n")
brk("c07-roundrobin-includes-ro", "C07", "immutable/happiness_upload.py",
    "peer_iter = round_robin(peers - readonly_peers)", "peer_iter = round_robin(peers | readonly_peers)")
# ---- C08
brk("c08-early-exit", "C08", "util/happinessutil.py",
    "    while augmenting_path_for(residual_graph):", "    if augmenting_path_for(residual_graph):")
# ---- C01
brk("c01-tail-pad-plus-one", "C01", "immutable/encode.py",
    "padded_tail_size = mathutil.next_multiple(tail_size,\n", "padded_tail_size = mathutil.next_multiple(tail_size + 1,\n")
brk("c01-ctr-offset", "C01", "immutable/filenode.py",
    "offset_big = offset // 16", "offset_big = (offset + 16) // 16")
# ---- C02
brk("c02-no-ciphertext-check", "C02", "immutable/downloader/node.py",
    "            self.ciphertext_hash_tree.set_hashes(leaves={segnum: h})\n            self._download_status.add_misc_event(\"CThash\"",
    "            self._download_status.add_misc_event(\"CThash\"")
brk("c02-no-ueb-hash-check", "C02", "immutable/downloader/node.py",
    "        if h != self._verifycap.uri_extension_hash:", "        if False:")
# NOT a C02 break (kept as documentation): removing only the block-hash check
# (share.py check_block) is masked by the ciphertext-hash check behind it, so no
# wrong byte reaches the reader and C02 still holds.
# ---- C46
brk("c46-active-segment-not-cleared", "C46", "immutable/downloader/node.py",
    "                # this catches failures in decode or ciphertext hash\n                self._active_segment = None\n",
    "                # this catches failures in decode or ciphertext hash\n")
