"""Planted breaks for C30 (HTTP storage API authorization).  `file` is relative to src/allmydata."""

BREAKS = []


def brk(name, file, old, new, tier="quick", note=""):
    BREAKS.append(dict(name=name, prop="C30", file=file, old=old, new=new, tier=tier, note=note))


HS = "storage/http_server.py"

brk("c30-swissnum-compare-removed", HS,
    "                    if not timing_safe_compare(\n                        auth_header,",
    "                    if False and not timing_safe_compare(\n                        auth_header,")
brk("c30-swissnum-prefix-only", HS,
    "                        auth_header,\n                        swissnum_auth_header(self._swissnum),",
    "                        auth_header[:16],\n                        swissnum_auth_header(self._swissnum)[:16],",
    note="only 'Tahoe-LAFS ' + the first 5 base64 characters are compared")
brk("c30-swissnum-any-prefix-of-right-header", HS,
    "                        auth_header,\n                        swissnum_auth_header(self._swissnum),",
    "                        auth_header,\n                        swissnum_auth_header(self._swissnum)[:max(13, len(auth_header))],",
    note="a truncated header matches (startswith the wrong way round)")
brk("c30-swissnum-extension-accepted", HS,
    "                        auth_header,\n                        swissnum_auth_header(self._swissnum),",
    "                        auth_header[:len(swissnum_auth_header(self._swissnum))],\n                        swissnum_auth_header(self._swissnum),",
    note="header with trailing junk after the right value matches")
brk("c30-corrupt-routes-without-auth", HS,
    "                    if not timing_safe_compare(\n                        auth_header,",
    "                    if not request.path.endswith(b\"/corrupt\") and not timing_safe_compare(\n                        auth_header,",
    note="equivalent to the two advise_corrupt_share routes missing their authorization decorator")
brk("c30-get-routes-without-auth", HS,
    "                    if not timing_safe_compare(\n                        auth_header,",
    "                    if request.method != b\"GET\" and not timing_safe_compare(\n                        auth_header,",
    note="read routes serve share bytes to anybody")
brk("c30-abort-skips-upload-secret", HS,
    "            bucket = self._uploads.get_write_bucket(\n                storage_index, share_number, authorization[Secrets.UPLOAD]\n            )\n        except _HTTPError as e:",
    "            bucket = self._uploads._uploads[storage_index].shares[share_number] if (storage_index in self._uploads._uploads and share_number in self._uploads._uploads[storage_index].shares) else self._uploads.get_write_bucket(\n                storage_index, share_number, authorization[Secrets.UPLOAD]\n            )\n        except _HTTPError as e:")
brk("c30-upload-secret-never-validated", HS,
    "                raise _HTTPError(http.UNAUTHORIZED)\n\n\nclass StorageIndexConverter",
    "                pass\n\n\nclass StorageIndexConverter")
brk("c30-upload-secret-first-byte-only", HS,
    "                in_progress.upload_secrets[share_number], upload_secret\n",
    "                in_progress.upload_secrets[share_number][:1], upload_secret[:1]\n")
brk("c30-write-enabler-not-checked", "storage/server.py",
    "                msf.check_write_enabler(write_enabler, si_s)\n",
    "                pass\n")
brk("c30-write-enabler-prefix-only", "storage/mutable.py",
    "if not timing_safe_compare(write_enabler, real_write_enabler):",
    "if not timing_safe_compare(write_enabler[:len(real_write_enabler)], real_write_enabler):",
    note="write enabler followed by junk accepted")
brk("c30-extra-secret-tolerated", HS,
    "    if result.keys() != required_secrets:",
    "    if not (result.keys() >= required_secrets):")
brk("c30-unknown-secret-kind-ignored", HS,
    "            key = string_key_to_enum[string_key]\n",
    "            if string_key not in string_key_to_enum:\n                continue\n            key = string_key_to_enum[string_key]\n")
brk("c30-lease-secret-length-unchecked", HS,
    "and len(value) != 32:", "and len(value) > 64:")
brk("c30-empty-secret-accepted", HS,
    "            if value == b\"\":\n", "            if False:\n")
brk("c30-bad-secret-header-swallowed", HS,
    "    except (ValueError, KeyError):\n        raise ClientSecretsException(\"Bad header value(s): {}\".format(header_values))",
    "    except (ValueError, KeyError):\n        result = {k: result.get(k, b\"x\" * 32) for k in required_secrets}",
    note="undecodable secret headers are replaced by a default instead of rejecting")
# ---- families added after seeded/C30-1 and seeded/C30-2
brk("c30-authorization-compared-case-insensitively", HS,
    "                        auth_header,\n                        swissnum_auth_header(self._swissnum),",
    "                        auth_header.lower(),\n                        swissnum_auth_header(self._swissnum).lower(),",
    note="base64 text differing only in letter case encodes a different swissnum")
# NOT breaks (kept as documentation): each half of seeded/C30-2 alone leaves the property intact -- not popping the
# per-share secret in remove_write_bucket is repaired by add_write_bucket overwriting it, and setdefault in
# add_write_bucket is harmless while remove_write_bucket pops.  Only the combination (seeded/C30-2/patch.diff,
# caught by the stale-secret history family) lets the previous uploader's secret govern a re-allocated share.
