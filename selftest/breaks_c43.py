"""Planted breaks for C43 (node and capability identity is consistent)."""
BREAKS = [
    # twins of seeded C43-6: equality that ignores one field of the cap string
    dict(name="c43-baseuri-eq-ignores-encoding-params", prop="C43", file="uri.py",
         old="        if isinstance(them, _BaseURI):\n            return self.to_string() == them.to_string()\n        else:\n            return False",
         new="        if isinstance(them, _BaseURI):\n            a, b = self.to_string().split(b':'), them.to_string().split(b':')\n"
             "            return a[:4] == b[:4] and a[6:] == b[6:]\n        else:\n            return False"),
    dict(name="c43-mutable-node-eq-ignores-fingerprint", prop="C43", file="mutable/filenode.py",
         old="        return self._uri == them._uri",
         new="        return type(self._uri) is type(them._uri) and self._readkey == them._readkey and self._writekey == them._writekey"),
    dict(name="c43-literal-node-eq-on-length", prop="C43", file="immutable/literal.py",
         old="            return self.u == other.u",
         new="            return len(self.u.data) == len(other.u.data)"),
    dict(name="c43-baseuri-hash-includes-id", prop="C43", file="uri.py",
         old="        return self.to_string().__hash__()",
         new="        return hash((self.to_string(), id(self)))"),
    dict(name="c43-unknownnode-eq-ignores-rw", prop="C43", file="unknown.py",
         old="        return other.ro_uri == self.ro_uri and other.rw_uri == self.rw_uri",
         new="        return other.ro_uri == self.ro_uri"),
    dict(name="c43-immutable-node-ne-is-eq", prop="C43", file="immutable/filenode.py",
         old="    def __ne__(self, other):\n        return not self == other",
         new="    def __ne__(self, other):\n        return self == other"),
]
