"""Planted breaks for C13 (one client serializes operations on a mutable node)."""

_HEAD = ("        return self._protocol_version\n\n\n"
         "    def _do_serialized(self, cb, *args, **kwargs):\n")

BREAKS = [
    # the serializer is bypassed: every operation starts at once
    dict(name="c13-do-serialized-calls-cb-directly", prop="C13", file="mutable/filenode.py",
         old=_HEAD,
         new=_HEAD + "        return defer.maybeDeferred(cb, *args, **kwargs)\n"),
    # addBoth -> addCallback on the link that reports the result: a failed operation never reports
    dict(name="c13-failure-never-reported", prop="C13", file="mutable/filenode.py",
         old=_HEAD,
         new=_HEAD +
         "        d = defer.Deferred()\n"
         "        self._serializer.addCallback(lambda ignore: cb(*args, **kwargs))\n"
         "        self._serializer.addCallback(lambda res: eventually(d.callback, res))\n"
         "        self._serializer.addErrback(log.err)\n"
         "        return d\n"),
    # the chain is not healed after a failure: later operations never run, they inherit the failure
    dict(name="c13-failure-blocks-chain", prop="C13", file="mutable/filenode.py",
         old=_HEAD,
         new=_HEAD +
         "        d = defer.Deferred()\n"
         "        self._serializer.addCallback(lambda ignore: cb(*args, **kwargs))\n"
         "        self._serializer.addBoth(lambda res: eventually(d.callback, res) or res)\n"
         "        return d\n"),
    # later operations are queued behind the *first* one only (chain not advanced): second and third overlap
    dict(name="c13-queue-not-advanced", prop="C13", file="mutable/filenode.py",
         old=_HEAD,
         new=_HEAD +
         "        d = defer.Deferred()\n"
         "        d2 = defer.Deferred()\n"
         "        self._serializer.addBoth(lambda res: (d2.callback(None), res)[1])\n"
         "        d2.addCallback(lambda ignore: cb(*args, **kwargs))\n"
         "        d2.addBoth(lambda res: eventually(d.callback, res))\n"
         "        return d\n"),
    dict(name="c13-nodemaker-does-not-cache-mutable", prop="C13", file="nodemaker.py",
         old="            elif node.is_mutable():\n                self._node_cache[memokey] = node",
         new="            elif False and node.is_mutable():\n                self._node_cache[memokey] = node"),
    dict(name="c13-nodemaker-cache-key-truncated", prop="C13", file="nodemaker.py",
         old="            memokey = b\"M\" + bigcap\n",
         new="            memokey = b\"M\" + bigcap[:8]\n"),
    dict(name="c13-nodemaker-cache-key-without-prefix", prop="C13", file="nodemaker.py",
         old="        if deep_immutable:\n            memokey = b\"I\" + bigcap\n",
         new="        if deep_immutable:\n            memokey = b\"M\" + bigcap\n"),
    # directory nodes get a fresh object per lookup (only plain mutable files stay cached)
    dict(name="c13-nodemaker-does-not-cache-dirnodes", prop="C13", file="nodemaker.py",
         old="            elif node.is_mutable():\n                self._node_cache[memokey] = node",
         new="            elif node.is_mutable() and not hasattr(node, 'list'):\n                self._node_cache[memokey] = node"),
]
