"""Planted breaks for C45 (immutable check, verify and repair)."""

BREAKS = [
    # verifier
    dict(name="c45-verifier-skips-block-hash-validation", prop="C45", file="immutable/checker.py",
         old="            self.block_hash_tree.set_hashes(leaves={blocknum: blockhash})\n",
         new="            pass\n"),
    dict(name="c45-verifier-skips-ueb-hash", prop="C45", file="immutable/checker.py",
         old="        if h != self._verifycap.uri_extension_hash:", new="        if False:"),
    dict(name="c45-verifier-skips-ciphertext-hash-tree", prop="C45", file="immutable/checker.py",
         old="            d.addCallback(lambda ign: vrbp.get_all_crypttext_hashes(cht))\n", new=""),
    dict(name="c45-verifier-counts-corrupt-as-verified", prop="C45", file="immutable/checker.py",
         old="                        if whynot == 'corrupt':\n                            corrupt.add(sharenum)",
         new="                        if whynot == 'corrupt':\n                            verified.add(sharenum)"),
    # health classification
    dict(name="c45-healthy-at-k-shares", prop="C45", file="immutable/checker.py",
         old="        if len(verifiedshares) == self._verifycap.total_shares:",
         new="        if len(verifiedshares) >= self._verifycap.needed_shares:"),
    dict(name="c45-recoverable-needs-more-than-k", prop="C45", file="immutable/checker.py",
         old="        if len(verifiedshares) >= self._verifycap.needed_shares:\n            recoverable = 1",
         new="        if len(verifiedshares) > self._verifycap.needed_shares:\n            recoverable = 1"),
    dict(name="c45-check-drops-a-server-answer", prop="C45", file="immutable/checker.py",
         old="            return (set(buckets), s, set(), set(), responded)",
         new="            return (set(sorted(buckets)[1:]), s, set(), set(), responded)"),
    # repair
    dict(name="c45-repairer-wrong-k", prop="C45", file="immutable/repairer.py",
         old="            k = vcap.needed_shares\n", new="            k = max(1, vcap.needed_shares - 1)\n"),
    dict(name="c45-repairer-reads-wrong-offset", prop="C45", file="immutable/repairer.py",
         old="        d = self._filenode.read(mc, self._offset, length)",
         new="        d = self._filenode.read(mc, self._offset + (1 if self._offset else 0), length)"),
    dict(name="c45-repair-success-at-k-shares", prop="C45", file="immutable/filenode.py",
         old="        is_healthy = bool(len(sm) >= verifycap.total_shares)",
         new="        is_healthy = bool(len(sm) >= verifycap.needed_shares)"),
    dict(name="c45-repair-overwrites-existing-share", prop="C45", file="storage/server.py",
         old="            if os.path.exists(finalhome):\n                # great! we already have it. easy.\n"
             "                pass\n            elif os.path.exists(incominghome):",
         new="            if os.path.exists(incominghome):"),
]
