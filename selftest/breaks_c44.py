"""Planted breaks for C44 (helper-assisted uploads are equivalent to direct uploads)."""

BREAKS = [
    dict(name="c44-helper-own-segment-size", prop="C44", file="immutable/offloaded.py",
         old="    def get_all_encoding_parameters(self):\n        return self.call(\"get_all_encoding_parameters\")\n",
         new="    def get_all_encoding_parameters(self):\n        d = self.call(\"get_all_encoding_parameters\")\n        d.addCallback(lambda p: (p[0], p[1], p[2], p[3] * 2))\n        return d\n"),
    dict(name="c44-helper-own-total-shares", prop="C44", file="immutable/offloaded.py",
         old="    def get_all_encoding_parameters(self):\n        return self.call(\"get_all_encoding_parameters\")\n",
         new="    def get_all_encoding_parameters(self):\n        d = self.call(\"get_all_encoding_parameters\")\n        d.addCallback(lambda p: (p[0], p[1], max(p[2], 10), p[3]))\n        return d\n"),
    dict(name="c44-resume-offset-off-by-one", prop="C44", file="immutable/offloaded.py",
         old="            self._have = os.stat(self._incoming_file)[stat.ST_SIZE]\n",
         new="            self._have = os.stat(self._incoming_file)[stat.ST_SIZE] + 1\n"),
    dict(name="c44-resume-refetches-last-byte", prop="C44", file="immutable/offloaded.py",
         old="            self._have = os.stat(self._incoming_file)[stat.ST_SIZE]\n",
         new="            self._have = max(0, os.stat(self._incoming_file)[stat.ST_SIZE] - 1)\n"),
    dict(name="c44-already-present-check-skipped", prop="C44", file="immutable/offloaded.py",
         old="        if already_present:\n            # the necessary results are placed in the UploadResults\n",
         new="        if already_present and False:\n            # the necessary results are placed in the UploadResults\n"),
    dict(name="c44-client-skip-ahead-off-by-one", prop="C44", file="immutable/upload.py",
         old="            skip = offset - self._offset\n",
         new="            skip = offset - self._offset - 1\n"),
]

# Tried, NOT a C44 break (documentation): ignoring an already complete CHK_encoding/<si> spool file
# (`if False and os.path.exists(self._encoding_file)`) only makes the helper fetch the ciphertext again and
# rename it over the old file -- caps and shares stay equal, the check rightly stays green.
