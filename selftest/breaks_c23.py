"""Planted breaks for C23 (mutable containers as byte arrays).  file is relative to src/allmydata.
Not listed: `offset+length >= data_length` -> `>` in _write_share_data (equivalent mutant: a write ending exactly at
data_length only re-writes the same length)."""
MU = "storage/mutable.py"
SV = "storage/server.py"
BREAKS = [
    dict(name="c23-zero-fill-omitted", prop="C23", file=MU,
         old="                f.write(b'\\x00'*(offset - data_length))", new="                pass"),
    dict(name="c23-lease-relocation-4-bytes-short", prop="C23", file=MU,
         old="        f.seek(new_extra_lease_offset)\n        f.write(extra_lease_data)",
         new="        f.seek(new_extra_lease_offset)\n        f.write(extra_lease_data[4:])"),
    dict(name="c23-lease-relocation-4-bytes-further", prop="C23", file=MU,
         old="        f.seek(new_extra_lease_offset)\n        f.write(extra_lease_data)",
         new="        f.seek(new_extra_lease_offset + 4)\n        f.write(extra_lease_data)"),
    dict(name="c23-truncate-not-applied", prop="C23", file=MU,
         old="                if new_length < cur_length:\n                    self._write_data_length(f, new_length)",
         new="                if new_length < cur_length:\n                    pass"),
    dict(name="c23-read-not-clipped", prop="C23", file=MU,
         old="            length = max(0, data_length-offset)\n", new="            pass\n"),
    dict(name="c23-delete-not-unlinked", prop="C23", file=SV,
         old="                if sharenum in shares:\n                    shares[sharenum].unlink()",
         new="                if sharenum in shares:\n                    pass"),
    dict(name="c23-leases_size-forgets-count", prop="C23", file=MU,
         old="        leases_size = 4 + num_extra_leases * self.LEASE_SIZE",
         new="        leases_size = num_extra_leases * self.LEASE_SIZE"),
    dict(name="c23-larger-new-length-extends", prop="C23", file=MU,
         old="                if new_length < cur_length:", new="                if new_length != cur_length:"),
    dict(name="c23-container-test-off-by-one", prop="C23", file=MU,
         old="            if self.DATA_OFFSET+offset+length > extra_lease_offset:",
         new="            if self.DATA_OFFSET+offset+length > extra_lease_offset + 1:"),
    dict(name="c23-bucketdir-not-removed", prop="C23", file=SV,
         old="                if os.path.exists(bucketdir) and [] == os.listdir(bucketdir):\n                    os.rmdir(bucketdir)",
         new="                pass"),
    dict(name="c23-write-vectors-sorted-by-end", prop="C23", file=SV, expect="masked",  # not a violation: interfaces.py leaves the order of overlapping vectors unspecified
        
         old="                shares[sharenum].writev(datav, new_length)\n",
         new="                shares[sharenum].writev(sorted(datav, key=lambda v: v[0] + len(v[1]), reverse=True), new_length)\n"),
    dict(name="c23-write-vectors-sorted-by-offset", prop="C23", file=SV, expect="masked",  # not a violation: interfaces.py leaves the order of overlapping vectors unspecified
        
         old="                shares[sharenum].writev(datav, new_length)\n",
         new="                shares[sharenum].writev(sorted(datav, key=lambda v: v[0]), new_length)\n"),
    dict(name="c23-write-vectors-reversed", prop="C23", file=SV, expect="masked",  # not a violation: interfaces.py leaves the order of overlapping vectors unspecified
        
         old="                shares[sharenum].writev(datav, new_length)\n",
         new="                shares[sharenum].writev(list(reversed(datav)), new_length)\n"),
]
