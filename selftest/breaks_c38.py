"""Planted breaks for C38 (on-disk and wire encodings round-trip; malformed encodings are rejected).

The codec breaks of vf/checks/c38.py's MUST_CATCH block are re-run by hand by the author; the entries here are the
breaks of split_netstring's terminator handling (twins of seeded/C38-4).
"""
BREAKS = []


def brk(name, file, old, new, note=""):
    BREAKS.append(dict(name=name, prop="C38", file=file, old=old, new=new, note=note))


brk("c38-netstring-final-comma-optional", "util/netstring.py",
    '        assert data[position] == b","[0], position\n',
    '        assert data[position:position+1] in b",", position\n',
    "twin of seeded/C38-4: b'' in b',' is True, so a buffer that lost its last byte is accepted, position past the end")
brk("c38-netstring-final-comma-checked-only-if-present", "util/netstring.py",
    '        assert data[position] == b","[0], position\n',
    '        assert position >= len(data) or data[position] == b","[0], position\n',
    "same effect written as an explicit bounds guard")
# Not a C38 break (documented, not in BREAKS): accepting ';' as terminator (`assert data[position] in b",;"`) still
# decodes every such buffer to the strings that were encoded -> lenient accept under DESIGN §5 C38, exit 0.

# ---- round 3: twin of seeded/C38-5 (mutable container data-size bound check)
brk("c38-mutable-data-length-bound-forgets-header", "storage/mutable.py",
    "        if self.DATA_OFFSET + data_length > self._read_extra_lease_offset(f):",
    "        if data_length > self._read_extra_lease_offset(f):",
    "twin of seeded/C38-5: data size up to 468 bytes beyond the container is accepted, reads run into the lease block")
brk("c38-mutable-data-length-bound-off-by-lease-count", "storage/mutable.py",
    "        if self.DATA_OFFSET + data_length > self._read_extra_lease_offset(f):",
    "        if self.DATA_OFFSET + data_length > self._read_extra_lease_offset(f) + 4:",
    "the 4-byte extra-lease count is treated as readable share data")
