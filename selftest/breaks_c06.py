"""Planted breaks for C06 (a successful immutable upload meets servers-of-happiness)."""

BREAKS = [
    dict(name="c06-remove-shareholder-no-recheck", prop="C06", file="immutable/encode.py",
         old="        if happiness < self.min_happiness:\n            peerids = set(",
         new="        if False:\n            peerids = set("),
    dict(name="c06-lost-share-still-counted", prop="C06", file="immutable/encode.py",
         old="            self.servermap[shareid].remove(peerid)\n            if not self.servermap[shareid]:\n"
             "                del self.servermap[shareid]\n",
         new=""),
    dict(name="c06-final-test-lets-happy-minus-one-through", prop="C06", file="immutable/upload.py",
         old="        if effective_happiness < min_happiness:\n            msg = failure_message(",
         new="        if effective_happiness < min_happiness - 1:\n            msg = failure_message("),
    dict(name="c06-success-does-not-wait-for-close", prop="C06", file="immutable/encode.py",
         old="            dl.append(d)\n        return self._gather_responses(dl)\n\n    def done(self, res):",
         new="            dl.append(d)\n        self._gather_responses(dl)\n        return defer.succeed(None)\n\n"
             "    def done(self, res):"),
    dict(name="c06-close-errors-ignored", prop="C06", file="immutable/encode.py",
         old="            d.addErrback(self._remove_shareholder, shareid, \"close\")",
         new="            d.addErrback(lambda f: None)"),
    dict(name="c06-client-abort-closes-instead", prop="C06", file="immutable/layout.py",
         old="return self._rref.callRemote(\"abort\").addErrback(",
         new="return self._rref.callRemote(\"close\").addErrback("),
    dict(name="c06-server-abort-publishes-share", prop="C06", file="storage/immutable.py",
         old="    def remote_abort(self):\n        return self._bucket_writer.abort()",
         new="    def remote_abort(self):\n        return self._bucket_writer.close()"),
    dict(name="c06-results-report-lost-shares", prop="C06", file="immutable/upload.py",
         old="        for shnum in e.get_shares_placed():\n            server = self._server_trackers[shnum].get_server()",
         new="        for shnum in self._server_trackers:\n            server = self._server_trackers[shnum].get_server()"),
]

# Not catchable under the statement (the leftovers stay in incoming/, which no reader sees; the check reports them
# through the observation counter "incoming-leftovers-after-failed-upload" only):
#   * Tahoe2ServerSelector._failed not aborting its trackers   (upload.py: `tracker.abort()` -> `pass`)
#   * Encoder.err not aborting the remaining landlords         (encode.py: `self.landlords[shareid].abort()` -> `pass`)
