"""Planted breaks for C31 (HTTP and direct storage access agree).  `file` is relative to src/allmydata."""

BREAKS = []


def brk(name, file, old, new, tier="quick", note=""):
    BREAKS.append(dict(name=name, prop="C31", file=file, old=old, new=new, tier=tier, note=note))


HS = "storage/http_server.py"
HC = "storage/http_client.py"
SC = "storage_client.py"

# ---- range reads
brk("c31-client-range-header-plus-one", HC,
    "{\"range\": [Range(\"bytes\", [(offset, offset + length)]).to_header()]}",
    "{\"range\": [Range(\"bytes\", [(offset, offset + length + 1)]).to_header()]}")
brk("c31-client-range-header-minus-one", HC,
    "{\"range\": [Range(\"bytes\", [(offset, offset + length)]).to_header()]}",
    "{\"range\": [Range(\"bytes\", [(offset, max(offset + 1, offset + length - 1))]).to_header()]}")
brk("c31-server-read-past-end-is-an-error", HS,
    "    end = min(end, share_length)\n    if offset >= end:\n",
    "    if end > share_length:\n        raise _HTTPError(http.REQUESTED_RANGE_NOT_SATISFIABLE)\n    if offset >= end:\n")
brk("c31-server-read-at-end-416", HS,
    "        raise _HTTPError(http.NO_CONTENT)\n", "        raise _HTTPError(http.REQUESTED_RANGE_NOT_SATISFIABLE)\n")
brk("c31-server-range-producer-repeats-first-64k", HS,
    "        self.start += len(data)\n        self.remaining -= len(data)\n",
    "        self.remaining -= len(data)\n", note="only visible for reads > 64 KiB")
brk("c31-server-read-all-short-chunks", HS,
    "        data = self.read_data(self.start, 65536)\n        if not data:",
    "        data = self.read_data(self.start, 65536)\n        if not data or self.start >= 65536:",
    note="GET without Range stops after the first 64 KiB")
# ---- chunked writes / completion
brk("c31-server-content-range-start-plus-one", HS,
    "        offset = content_range.start or 0\n", "        offset = (content_range.start or 0) + 1\n")
brk("c31-server-content-range-drops-last-byte", HS,
    "        remaining = content_range.stop - offset\n", "        remaining = content_range.stop - offset - 1\n")
brk("c31-client-content-range-stop-minus-one", HC,
    "ContentRange(\"bytes\", offset, offset + len(data)).to_header()",
    "ContentRange(\"bytes\", offset, max(offset + 1, offset + len(data) - 1)).to_header()")
brk("c31-server-write-loop-offset-not-advanced", HS,
    "            remaining -= len(data)\n            offset += len(data)\n",
    "            remaining -= len(data)\n", note="only visible for writes > 64 KiB")
brk("c31-server-finished-when-last-byte-written", HS,
    "        if finished:\n            bucket.close()",
    "        if finished or offset >= bucket.allocated_size():\n            bucket.close()",
    note="completion = 'the end of the share was written' instead of 'every byte was written'")
brk("c31-client-finished-never", HC,
    "            # Upload is done!\n            finished = True\n", "            # Upload is done!\n            finished = False\n")
brk("c31-client-finished-when-no-more-required-after", HC,
    "        return UploadProgress(finished=finished, required=remaining)",
    "        return UploadProgress(finished=finished or (offset + len(data) >= max([c[\"end\"] for c in body[\"required\"]] or [0]) and len(body[\"required\"]) <= 1), required=remaining)",
    note="client guesses completion from the tail of the required list")
brk("c31-server-required-ranges-omit-first", HS,
    "        for start, end, _ in bucket.required_ranges().ranges():\n            required.append({\"begin\": start, \"end\": end})",
    "        for start, end, _ in list(bucket.required_ranges().ranges())[1:]:\n            required.append({\"begin\": start, \"end\": end})")
brk("c31-server-allocated-size-plus-one", HS,
    "            allocated_size=info[\"allocated-size\"],\n", "            allocated_size=info[\"allocated-size\"] + 1,\n")
# ---- listing
brk("c31-list-shares-drops-lowest", HS,
    "        share_numbers = set(self._storage_server.get_buckets(storage_index).keys())\n",
    "        share_numbers = set(sorted(self._storage_server.get_buckets(storage_index).keys())[1:])\n")
brk("c31-mutable-list-drops-highest", HS,
    "        shares = self._storage_server.enumerate_mutable_shares(storage_index)\n",
    "        shares = set(sorted(self._storage_server.enumerate_mutable_shares(storage_index))[:3])\n",
    note="only visible with 4 shares in a slot")
# ---- leases, advisories
brk("c31-lease-secrets-swapped", HS,
    "            authorization[Secrets.LEASE_RENEW],\n            authorization[Secrets.LEASE_CANCEL],\n        )\n\n        request.setResponseCode(http.NO_CONTENT)",
    "            authorization[Secrets.LEASE_CANCEL],\n            authorization[Secrets.LEASE_RENEW],\n        )\n\n        request.setResponseCode(http.NO_CONTENT)")
brk("c31-advise-reason-ascii-only", HS,
    "        bucket.advise_corrupt_share(info[\"reason\"].encode(\"utf-8\"))",
    "        bucket.advise_corrupt_share(info[\"reason\"].encode(\"ascii\", \"replace\"))")
# ---- read-test-write marshalling
brk("c31-rtw-server-drops-new-length", HS,
    "                        [(d[\"offset\"], d[\"data\"]) for d in v[\"write\"]],\n                        v[\"new-length\"],",
    "                        [(d[\"offset\"], d[\"data\"]) for d in v[\"write\"]],\n                        None,")
brk("c31-rtw-client-new-length-zero-becomes-none", HC,
    "        d[\"new-length\"] = d.pop(\"new_length\")", "        d[\"new-length\"] = d.pop(\"new_length\") or None",
    note="delete-by-truncation never happens over HTTP")
brk("c31-rtw-server-test-vector-size-ignored", HS,
    "                            (d[\"offset\"], d[\"size\"], b\"eq\", d[\"specimen\"])",
    "                            (d[\"offset\"], max(1, d[\"size\"]), b\"eq\", d[\"specimen\"])")
brk("c31-rtw-server-only-first-write-vector", HS,
    "                        [(d[\"offset\"], d[\"data\"]) for d in v[\"write\"]],",
    "                        [(d[\"offset\"], d[\"data\"]) for d in v[\"write\"][:1]],")
brk("c31-rtw-server-read-vector-size-off-by-one", HS,
    "                [(d[\"offset\"], d[\"size\"]) for d in rtw_request[\"read-vector\"]],",
    "                [(d[\"offset\"], d[\"size\"] + 1) for d in rtw_request[\"read-vector\"]],")
brk("c31-rtw-adapter-reports-success-always", SC,
    "        return (client_result.success, client_result.reads)", "        return (True, client_result.reads)")
brk("c31-slot-readv-adapter-first-vector-only", SC,
    "                    for (offset, length) in readv\n", "                    for (offset, length) in readv[:1]\n")
brk("c31-mutable-read-length-from-wrong-share", HS,
    "            share_length = self._storage_server.get_mutable_share_length(\n                storage_index, share_number\n            )",
    "            share_length = min(self._storage_server.get_mutable_share_length(\n                storage_index, share_number\n            ), 50)",
    note="mutable range reads truncated at 50 bytes")
# ---- first-pass conflict check of multi-block PATCH bodies (added after the fix of the large-write atomicity finding)
brk("c31-precheck-first-block-only", HS,
    "                bucket.check_conflicts(check_offset, data)\n",
    "                if check_offset == offset:\n                    bucket.check_conflicts(check_offset, data)\n",
    note="a conflict in the 2nd+ 64 KiB block is found only while writing: earlier blocks are applied before the 409")
brk("c31-precheck-offset-not-advanced", HS,
    "                bucket.check_conflicts(check_offset, data)\n",
    "                bucket.check_conflicts(offset, data)\n",
    note="= seeded/C31-1: an identical re-send of a body > 64 KiB gets 409")
# ---- = seeded/C24-3: test-vector size replaced by the specimen length ("must be new" test matches any share)
brk("c31-rtw-server-test-size-from-specimen-length", HS,
    "                            (d[\"offset\"], d[\"size\"], b\"eq\", d[\"specimen\"])",
    "                            (d[\"offset\"], len(d[\"specimen\"]), b\"eq\", d[\"specimen\"])")
brk("c31-rtw-client-test-size-from-specimen-length", SC,
    "                TestVector(offset=offset, size=size, specimen=specimen)",
    "                TestVector(offset=offset, size=len(specimen), specimen=specimen)",
    note="same mistake in the IStorageServer adapter: only the adapter layer shows it")
# ---- = seeded/C31-6: the first missing share number stops slot_readv's result collection
brk("c31-slot-readv-adapter-stops-at-first-missing-share", SC,
    "                    and e.subFailure.value.code == http.NOT_FOUND\n                ):\n                    continue\n",
    "                    and e.subFailure.value.code == http.NOT_FOUND\n                ):\n                    break\n")
