"""Planted breaks for C12 (concurrent writers are detected, never silently clobbered)."""

BREAKS = [
    dict(name="c12-server-testv-always-true", prop="C12", file="storage/server.py",
         old="                if not shares[sharenum].check_testv(testv):\n",
         new="                if False and not shares[sharenum].check_testv(testv):\n"),
    dict(name="c12-testv-compare-always-true", prop="C12", file="storage/mutable.py",
         old="    assert op == b\"eq\"\n    return a == b\n",
         new="    assert op == b\"eq\"\n    return True\n"),
    dict(name="c12-publisher-ignores-refused-write", prop="C12", file="mutable/publish.py",
         old="        if not wrote:\n            # TODO: there are two possibilities.",
         new="        if False and not wrote:\n            # TODO: there are two possibilities."),
    dict(name="c12-surprise-detection-dropped", prop="C12", file="mutable/publish.py",
         old="        if surprised:\n            self.log(\"they had shares %s that we didn't know about\" %",
         new="        if False and surprised:\n            self.log(\"they had shares %s that we didn't know about\" %"),
    dict(name="c12-surprise-detection-inverted", prop="C12", file="mutable/publish.py",
         old="            if checkstring == self._checkstring:\n                # they have the right share, somehow\n",
         new="            if checkstring != self._checkstring:\n                # they have the right share, somehow\n"),
    dict(name="c12-sdmf-writes-carry-no-test", prop="C12", file="mutable/layout.py",
         old="        tw_vectors[self.shnum] = (self._testvs, datavs, None)\n        return self._storage_server.slot_testv_and_readv_and_writev(",
         new="        tw_vectors[self.shnum] = ([], datavs, None)\n        return self._storage_server.slot_testv_and_readv_and_writev("),
    dict(name="c12-mdmf-writes-carry-no-test", prop="C12", file="mutable/layout.py",
         old="        tw_vectors[self.shnum] = (self._testvs, datavs, None)\n        d = self._storage_server.slot_testv_and_readv_and_writev(",
         new="        tw_vectors[self.shnum] = ([], datavs, None)\n        d = self._storage_server.slot_testv_and_readv_and_writev("),
    # (c12-empty-slot-test-dropped is reached through the "vanish" cases: a share is lost after a prepared survey)
    # set_checkstring omitted for known shares: the writers fall back to the "share must not exist" test, so every
    # overwrite of an existing file is refused -- caught by the lone-writer control (uncontended-publish-fails)
    dict(name="c12-set-checkstring-omitted-for-known-shares", prop="C12", file="mutable/publish.py",
         old="            if (server, shnum) in known_shares:\n                old_versionid, old_timestamp = known_shares[(server,shnum)]",
         new="            if False and (server, shnum) in known_shares:\n                old_versionid, old_timestamp = known_shares[(server,shnum)]"),
    dict(name="c12-sdmf-set-checkstring-noop", prop="C12", file="mutable/layout.py",
         old="            checkstring = checkstring_or_seqnum\n        self._testvs = [(0, len(checkstring), checkstring)]\n",
         new="            checkstring = checkstring_or_seqnum\n        self._testvs = []\n"),
    dict(name="c12-empty-slot-test-dropped", prop="C12", file="storage/server.py",
         old="                if not EmptyShare().check_testv(testv):\n",
         new="                if False and not EmptyShare().check_testv(testv):\n"),
]
