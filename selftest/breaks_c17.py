"""Planted breaks for C17 (key and secret derivations match the specification).

The function-level breaks of vf/checks/c17.py's MUST_CATCH block are re-run by hand by the author; the
entries here are the call-site breaks that only the stored-bytes directory workload (vf/checks/_c17_dir.py)
can see: the derivation function itself is intact, a wrong key is handed to it at one packing site.
"""
BREAKS = []


def brk(name, file, old, new, note=""):
    BREAKS.append(dict(name=name, prop="C17", file=file, old=old, new=new, note=note))


brk("c17-dir-initial-children-packed-under-readkey", "nodemaker.py",
    "                                     MutableData(pack_children(initial_children,\n"
    "                                                    n.get_writekey())),",
    "                                     MutableData(pack_children(initial_children,\n"
    "                                                    n.get_readkey())),",
    "twin of seeded/C17-4: mkdir-with-children derives the child-cap key from the directory READ key")
brk("c17-dir-initial-children-packed-under-storage-index", "nodemaker.py",
    "                                     MutableData(pack_children(initial_children,\n"
    "                                                    n.get_writekey())),",
    "                                     MutableData(pack_children(initial_children,\n"
    "                                                    n.get_storage_index())),",
    "child-cap key derived from a public value on the mkdir-with-children path")
brk("c17-dir-repack-under-readkey", "dirnode.py",
    "        return _pack_normalized_children(children, self._node.get_writekey())",
    "        return _pack_normalized_children(children, self._node.get_readkey())",
    "every later modification (set_node/set_uri/set_children/set_nodes) packs under the READ key")
brk("c17-dir-capkey-salt-and-key-swapped", "dirnode.py",
    "    key = hashutil.mutable_rwcap_key_hash(salt, writekey)\n    encryptor = aes.create_encryptor(key)",
    "    key = hashutil.mutable_rwcap_key_hash(writekey, salt)\n    encryptor = aes.create_encryptor(key)",
    "_encrypt_rw_uri passes (writekey, salt) instead of (salt, writekey)")

# ---- round 3: twins of seeded/C17-5 (clone paths) and seeded/C17-6 (secrets over the HTTP storage protocol)
brk("c17-dir-clone-reuses-source-entries", "dirnode.py",
    "    children = {}\n    for (namex, (node, metadata)) in list(childrenx.items()):\n"
    "        precondition(isinstance(metadata, dict),\n"
    "                     \"directory creation requires metadata to be a dict, not None\", metadata)\n"
    "        children[normalize(namex)] = (node, metadata)\n",
    "    children = childrenx if isinstance(childrenx, AuxValueDict) else {}\n"
    "    for (namex, (node, metadata)) in ([] if children is childrenx else list(childrenx.items())):\n"
    "        precondition(isinstance(metadata, dict),\n"
    "                     \"directory creation requires metadata to be a dict, not None\", metadata)\n"
    "        children[normalize(namex)] = (node, metadata)\n",
    "twin of seeded/C17-5: A.list() passed as initial_children keeps A's pre-packed entries (slots under A's write key)")
brk("c17-http-header-table-renew-cancel-exchanged", "storage/http_client.py",
    "            (Secrets.LEASE_RENEW, lease_renew_secret),\n            (Secrets.LEASE_CANCEL, lease_cancel_secret),\n",
    "            (Secrets.LEASE_RENEW, lease_cancel_secret),\n            (Secrets.LEASE_CANCEL, lease_renew_secret),\n",
    "twin of seeded/C17-6: every HTTP request carries renew and cancel secrets exchanged")
brk("c17-http-add-lease-renew-cancel-exchanged", "storage/http_client.py",
    "            \"PUT\",\n            url,\n            lease_renew_secret=renew_secret,\n            lease_cancel_secret=cancel_secret,\n",
    "            \"PUT\",\n            url,\n            lease_renew_secret=cancel_secret,\n            lease_cancel_secret=renew_secret,\n",
    "only add_lease over HTTP exchanges the secrets: the checker's add-lease creates a second, unspecified lease")
brk("c17-http-mutable-write-renew-cancel-exchanged", "storage/http_client.py",
    "            write_enabler_secret=write_enabler_secret,\n            lease_renew_secret=lease_renew_secret,\n"
    "            lease_cancel_secret=lease_cancel_secret,\n            message_to_serialize=message,\n",
    "            write_enabler_secret=write_enabler_secret,\n            lease_renew_secret=lease_cancel_secret,\n"
    "            lease_cancel_secret=lease_renew_secret,\n            message_to_serialize=message,\n",
    "only mutable read-test-write over HTTP exchanges the secrets")
