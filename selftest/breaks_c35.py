"""Planted breaks for C35 (IncompleteHashTree accepts only genuine leaves; rejects leave the state unchanged).

The breaks of vf/checks/c35.py's MUST_CATCH block were run by hand by the author; the entries here are the twins of
seeded/C35-4 (the leaves=/hashes= cross-check of set_hashes removed, with either argument winning).
"""
BREAKS = []


def brk(name, file, old, new, note=""):
    BREAKS.append(dict(name=name, prop="C35", file=file, old=old, new=new, note=note))


_OLD = '''            if hashnum in new_hashes:
                if new_hashes[hashnum] != leafhash:
'''
brk("c35-args-conflict-unchecked-leaves-win", "hashtree.py", _OLD,
    '''            if hashnum in new_hashes:
                if False:
''',
    "twin of seeded/C35-4 with the other winner: a forged leaf-node hash in hashes= is silently dropped, call returns normally")
brk("c35-args-conflict-unchecked-hashes-win", "hashtree.py",
    _OLD + '''                    raise BadHashError("got conflicting hashes in my "
                                       "arguments: leaves[%d] != hashes[%d]"
                                       % (leafnum, hashnum))
            new_hashes[hashnum] = leafhash
''',
    '''            if hashnum in new_hashes:
                continue
            new_hashes[hashnum] = leafhash
''',
    "same effect as seeded/C35-4: the caller's (forged) leaves= value is dropped when hashes= names the leaf node")
brk("c35-args-conflict-checked-only-against-tree", "hashtree.py", _OLD,
    '''            if hashnum in new_hashes:
                if self[hashnum] is not None and new_hashes[hashnum] != leafhash:
''',
    "cross-check kept only when the tree already holds the leaf")

# twins of seeded/C35-5: a node supplied in the same call is treated as validated
_PAR = '''                    if self[parentnum]:
                        if self[parentnum] != new_parent_hash:
                            raise BadHashError("h([%d]+[%d]) != h[%d]" %
                                               (leftnum, rightnum, parentnum))
'''
brk("c35-volunteered-parent-trusted-if-grandparent-present", "hashtree.py", _PAR,
    _PAR + '''                        if parentnum and self[self.parent(parentnum)]:
                            hashes_to_check[level-1].discard(parentnum)
''',
    "seeded/C35-5 itself")
brk("c35-volunteered-parent-always-trusted", "hashtree.py", _PAR,
    _PAR + '''                        hashes_to_check[level-1].discard(parentnum)
''',
    "any parent that matches its children is dropped from the check set, known or provisional")
brk("c35-missing-sibling-ok-when-parent-present", "hashtree.py",
    '''                    if self[siblingnum] is None:
''',
    '''                    if self[siblingnum] is None and self[self.parent(i)] is not None:
                        continue
                    if self[siblingnum] is None:
''',
    "a node whose sibling is withheld is accepted when its parent is in place")
