"""Planted breaks for C39 (SFTP OverwriteableFileConsumer).  file is relative to src/allmydata.
NOTE: while keys nested-overwrite-merge-shrinks / concurrent-reads-same-milestone-typeerror are unfixed in /repo the
check exits 1 on the base already; the outcomes recorded in vf/checks/c39.py MUST_CATCH were obtained on a base with
both fixes applied."""
S = "frontends/sftpd.py"
BREAKS = [
    dict(name="c39-no-skip-of-overwritten-regions", prop="C39", file=S,
         old="        while len(self.overwrites) > 0:\n            (start, end) = self.overwrites[0]\n            if start >= next_downloaded:",
         new="        while False:\n            (start, end) = self.overwrites[0]\n            if start >= next_downloaded:"),
    dict(name="c39-truncate-keeps-download-size", prop="C39", file=S,
         old="        if size < self.download_size:\n            self.download_size = size\n",
         new="        if False:\n            self.download_size = size\n"),
    dict(name="c39-straddling-overwrite-not-recorded", prop="C39", file=S,
         old="        if end > self.downloaded:\n            heapq.heappush(self.overwrites, (start, end))",
         new="        if start > self.downloaded:\n            heapq.heappush(self.overwrites, (start, end))"),
    dict(name="c39-read-does-not-wait", prop="C39", file=S,
         old="        needed = min(offset + length, self.download_size)", new="        needed = min(offset, self.download_size)"),
    dict(name="c39-no-zero-fill-beyond-eof", prop="C39", file=S,
         old="            self.f.seek(self.current_size)\n            self.f.write(b\"\\x00\" * (offset - self.current_size))\n            start = self.current_size",
         new="            self.f.seek(offset)\n            start = self.current_size"),
    dict(name="c39-prefix-before-overwrite-dropped", prop="C39", file=S,
         old="                self.f.seek(self.downloaded)\n                self.f.write(data[:(start - self.downloaded)])",
         new="                pass"),
    dict(name="c39-chunk-not-clipped-to-download-size", prop="C39", file=S,
         old="        if next_downloaded > self.download_size:\n            data = data[:(self.download_size - self.downloaded)]",
         new="        if False:\n            pass"),
    dict(name="c39-milestone-jumps-over-gap", prop="C39", file=S,
         old="            if start <= new_downloaded and end > milestone:\n                milestone = end",
         new="            if end > milestone:\n                milestone = end"),
    # behaviour-preserving under the class contract (expected MISSED, kept for the record):
    # dict(name="c39-no-download-done-on-truncate", ...), dict(name="c39-extend-does-not-record-zeros", ...)
]
