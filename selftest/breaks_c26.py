"""Planted breaks for C26 (lease expiry).  file is relative to src/allmydata.
NOTE: while the age-mode defect (key age-mode-no-override-never-expires) is unfixed in /repo the check exits 1 on
the base already; the outcomes recorded in vf/checks/c26.py MUST_CATCH were obtained on a base with that one-line
fix applied, and every break produced a *different* key."""
E = "storage/expirer.py"
BREAKS = [
    dict(name="c26-cutoff-comparison-inverted", prop="C26", file=E,
         old="                if grant_renew_time < self.cutoff_date:", new="                if grant_renew_time > self.cutoff_date:"),
    dict(name="c26-sharetype-filter-ignored", prop="C26", file=E,
         old="            if sharetype not in self.sharetypes_to_expire:\n                expired = False",
         new="            if False:\n                expired = False"),
    dict(name="c26-one-expired-lease-cancels-all", prop="C26", file=E,
         old="            for li in expired_leases_configured:\n                sf.cancel_lease(li.cancel_secret)",
         new="            for li in (list(sf.get_leases()) if expired_leases_configured else []):\n                sf.cancel_lease(li.cancel_secret)"),
    dict(name="c26-enabled-flag-ignored", prop="C26", file=E,
         old="        if self.expiration_enabled:\n            for li in expired_leases_configured:",
         new="        if True:\n            for li in expired_leases_configured:"),
    dict(name="c26-age-limit-2s-early", prop="C26", file=E,
         old="                if age > age_limit:", new="                if age + 2 > age_limit:"),
    dict(name="c26-age-limit-2s-late", prop="C26", file=E,
         old="                if age > age_limit:", new="                if age > age_limit + 2:"),
    dict(name="c26-cutoff-2s-late", prop="C26", file=E,
         old="                if grant_renew_time < self.cutoff_date:", new="                if grant_renew_time < self.cutoff_date + 2:"),
    dict(name="c26-immutable-not-unlinked-after-last-lease", prop="C26", file="storage/immutable.py",
         old="        if not len(leases):\n            space_freed += os.stat(self.home)[stat.ST_SIZE]\n            self.unlink()",
         new="        if False:\n            self.unlink()"),
    dict(name="c26-mutable-unlinked-after-any-cancel", prop="C26", file="storage/mutable.py",
         old="                if not remaining:\n                    freed_space += os.stat(self.home)[stat.ST_SIZE]\n                    self.unlink()",
         new="                if True:\n                    self.unlink()"),
    dict(name="c26-override-ignored", prop="C26", file=E,
         old="                if self.override_lease_duration is not None:\n                    age_limit = self.override_lease_duration",
         new="                if False:\n                    age_limit = self.override_lease_duration"),
]
