"""Planted breaks for C09 (mutable files read back what one writer wrote).

Every entry changes bytes that reach a reader (or makes reads of a successfully written file fail);
breaks that merely turn an operation into an errback are not C09 breaks (the statement only speaks
about reads after successful operations) and are listed at the bottom as documentation.

All former genuine findings of C09 are repaired in /repo (0eb4d1b, 1699424, 73ba509, 7a3fd88): on the current
tree the check exits 0 and tools/selftest.py --prop C09 judges these breaks directly (15/15 caught).
"""
BREAKS = []


def brk(name, file, old, new, note=""):
    BREAKS.append(dict(name=name, prop="C09", file=file, old=old, new=new, note=note))


brk("c09-transforming-read-merge-off-by-one", "mutable/publish.py",
    "            old_data_offset = (length - old_end_length + \\\n                               old_data_length) % self._segment_size",
    "            old_data_offset = (length - old_end_length + \\\n                               old_data_length + 1) % self._segment_size",
    "old tail of the end segment merged from one byte too far")
brk("c09-transforming-read-start-shifted", "mutable/publish.py",
    "            old_start_data = self._start[self._read_marker:old_data_end]",
    "            old_start_data = self._start[self._read_marker + 1:old_data_end + 1]",
    "old head of the start segment merged shifted by one byte")
brk("c09-set-segment-tail-trim", "mutable/retrieve.py",
    "            wanted = (self._offset + self._read_length) % self._segment_size",
    "            wanted = (self._offset + self._read_length + 1) % self._segment_size",
    "partial read delivers one byte too many / a whole segment at boundary-1")
brk("c09-set-segment-no-tail-trim-when-single", "mutable/retrieve.py",
    "        if self._current_segment == self._last_segment:\n            # trim off the tail",
    "        if self._current_segment == self._last_segment and self._current_segment != self._start_segment:\n            # trim off the tail",
    "read inside one segment is not trimmed at its end")
brk("c09-retrieve-last-segment-off-by-one", "mutable/retrieve.py",
    "        end = (end_data - 1) // self._segment_size",
    "        end = end_data // self._segment_size",
    "reads ending exactly on a segment boundary fetch and deliver the next segment too")
brk("c09-publish-end-segment-off-by-one", "mutable/publish.py",
    "            self.end_segment = end // segment_size\n",
    "            self.end_segment = (end - 1) // segment_size\n",
    "update whose end is segment aligned does not push its last segment")
brk("c09-update-end-segment-fetch", "mutable/filenode.py",
    "            end_segment = end_data // segsize",
    "            end_segment = (end_data - 1) // segsize",
    "update whose last byte is the first byte of a segment merges the old tail of the previous segment")
brk("c09-blockhash-reuse", "mutable/publish.py",
    "            self.blockhashes[shareid][segnum] = block_hash\n",
    "            if self.blockhashes[shareid][segnum] is None:\n                self.blockhashes[shareid][segnum] = block_hash\n",
    "in-place update keeps the old block hash (or the old padding leaf after growth) of rewritten segments")
brk("c09-servermap-update-range-swapped", "mutable/servermap.py",
    "        update_data = (blockhashes, start, end)",
    "        update_data = (blockhashes, end, start)",
    "old start and end boundary segments handed to the update in the wrong order")
brk("c09-modify-update-drops-byte", "mutable/filenode.py",
    "            new += old[rest:]\n",
    "            new += old[rest + 1:]\n",
    "SDMF update (download-modify-upload) loses the byte after the written range")
brk("c09-publish-starting-segment", "mutable/publish.py",
    "            self.starting_segment = offset // segment_size\n",
    "            self.starting_segment = (offset + 1) // segment_size\n",
    "update starting on the last byte of a segment starts pushing one segment late")
brk("c09-update-datalength-never-grows", "mutable/publish.py",
    "        if data.get_size() > self.datalength:\n            self.datalength = data.get_size()\n\n        self.log(\"starting update\")",
    "        self.log(\"starting update\")",
    "appending update keeps the old data length")
brk("c09-modify-publishes-old", "mutable/filenode.py",
    "                new_contents = MutableData(new_contents)\n",
    "                new_contents = MutableData(old_contents)\n",
    "modify() publishes the old contents")
# the two defects repaired by fix: commits 0eb4d1b and 1699424, re-planted
brk("c09-replant-stale-node-size", "mutable/publish.py",
    "        self.datalength = version[4]\n",
    "        self.datalength = self._node.get_size()\n",
    "Publish.update sizes the new version from the node's cached size")
brk("c09-replant-append-at-aligned-eof", "mutable/filenode.py",
    "        if offset == self.get_size() and offset % segsize == 0 and start_segment > 0:",
    "        if False:",
    "append at EOF of a file whose size is a multiple of the segment size asks for a segment that does not exist")

# Documentation (not content breaks, not in BREAKS):
#  * SDMF IV reuse across versions (publish.py _encode_segment `salt = os.urandom(16)` -> constant): no delivered byte
#    changes; it is a confidentiality defect outside C09.
#  * filenode.py _do_update_update dropping `end_data -= 1`: the wrongly fetched "end" segment is never consulted when the
#    update ends on a boundary; otherwise the operation errbacks (LayoutInvalid) - no wrong byte is delivered.
#  * retrieve.py _decode_blocks size_to_use = padded tail size: masked by the tail trim in _set_segment.
#  * retrieve.py _decode_blocks always using the full-segment decoder for the tail: zfec ignores the size parameter,
#    no byte changes (tried, rc=0).
#  * publish.py update() dropping the last old block-hash leaf (leaves[:old_segcount-1]): HashTree(None leaf) raises,
#    the update errbacks and the content stays intact (tried, rc=0) - a failed operation, not a C09 violation.
