"""Planted breaks for C16 (capabilities attenuate correctly)."""
BREAKS = [
    # twins of seeded C16-4: a directory cap class loses its get_verify_cap() override and falls back to the
    # SDMF wrapper, whose to_string()/==/hash raise -> derived-cap-unusable / derived-cap-wrong-kind
    dict(name="c16-mdmf-dir-writecap-verify-override-removed", prop="C16", file="uri.py",
         old="        return ReadonlyMDMFDirectoryURI(self._filenode_uri.get_readonly())\n\n"
             "    def get_verify_cap(self):\n"
             "        return MDMFDirectoryURIVerifier(self._filenode_uri.get_verify_cap())\n",
         new="        return ReadonlyMDMFDirectoryURI(self._filenode_uri.get_readonly())\n"),
    dict(name="c16-immutable-dir-verify-override-removed", prop="C16", file="uri.py",
         old="    def get_verify_cap(self):\n"
             "        vcap = self._filenode_uri.get_verify_cap()\n"
             "        return ImmutableDirectoryURIVerifier(vcap)\n",
         new=""),
    dict(name="c16-ssk-get-readonly-returns-self", prop="C16", file="uri.py",
         old="        return ReadonlySSKFileURI(self.readkey, self.fingerprint)",
         new="        return self"),
    dict(name="c16-ro-prefix-keeps-can-be-writeable", prop="C16", file="uri.py",
         old="    elif s.startswith(ALLEGED_READONLY_PREFIX):\n        can_be_writeable = False\n",
         new="    elif s.startswith(ALLEGED_READONLY_PREFIX):\n"),
    dict(name="c16-imm-prefix-only-clears-writeable", prop="C16", file="uri.py",
         old="    if s.startswith(ALLEGED_IMMUTABLE_PREFIX):\n        can_be_mutable = can_be_writeable = False",
         new="    if s.startswith(ALLEGED_IMMUTABLE_PREFIX):\n        can_be_writeable = False"),
    dict(name="c16-deep-immutable-keeps-can-be-mutable", prop="C16", file="uri.py",
         old="    can_be_mutable = can_be_writeable = not deep_immutable",
         new="    can_be_writeable = not deep_immutable; can_be_mutable = True"),
    dict(name="c16-strip-prefix-drops-imm-in-mutable-dirs", prop="C16", file="unknown.py",
         old="        if not deep_immutable:\n            return ro_uri\n",
         new=""),
    dict(name="c16-unknownnode-ro-slot-not-prefixed", prop="C16", file="unknown.py",
         old="                    self.ro_uri = ALLEGED_READONLY_PREFIX + given_ro_uri",
         new="                    self.ro_uri = given_ro_uri"),
    dict(name="c16-unknownnode-strips-ro-keeps-rw", prop="C16", file="unknown.py",
         old="                given_ro_uri = given_rw_uri\n                given_rw_uri = None",
         new="                given_ro_uri = given_rw_uri\n                given_rw_uri = given_rw_uri.split(b'.', 1)[1]"),
    dict(name="c16-mutable-node-write-uri-ignores-readonly", prop="C16", file="mutable/filenode.py",
         old="    def get_write_uri(self):\n        if self.is_readonly():\n            return None\n",
         new="    def get_write_uri(self):\n"),
    dict(name="c16-storage-index-wrong-tag", prop="C16", file="util/hashutil.py",
         old="    return tagged_hash(MUTABLE_STORAGEINDEX_TAG, readkey, KEYLEN)",
         new="    return tagged_hash(MUTABLE_DATAKEY_TAG, readkey, KEYLEN)"),
    dict(name="c16-chk-verifycap-carries-key", prop="C16", file="uri.py",
         old="        return CHKFileVerifierURI(storage_index=self.storage_index,",
         new="        return CHKFileVerifierURI(storage_index=self.key,"),
    dict(name="c16-nodecache-ignores-deep-immutable", prop="C16", file="nodemaker.py",
         old="            memokey = b\"I\" + bigcap",
         new="            memokey = b\"M\" + bigcap"),
    dict(name="c16-ssk-ro-branch-guarded-by-writeable", prop="C16", file="uri.py",
         old="        elif s.startswith(b'URI:SSK-RO:'):\n            if can_be_mutable:",
         new="        elif s.startswith(b'URI:SSK-RO:'):\n            if can_be_writeable:"),
    # twins of seeded C16-5 / C16-6 / C15-5
    dict(name="c16-prohibitednode-readcap-is-cap", prop="C16", file="blacklist.py",
         old="        return self.wrapped_node.get_readcap()",
         new="        return self.wrapped_node.get_cap()"),
    dict(name="c16-adder-never-diminishes-on-overwrite", prop="C16", file="dirnode.py",
         old="                metadata = children[name][1].copy()\n\n            metadata = update_metadata(metadata, new_metadata, now)\n"
             "            if self.create_readonly_node and metadata.get('no-write', False):",
         new="                metadata = children[name][1].copy()\n\n            metadata = update_metadata(metadata, new_metadata, now)\n"
             "            if self.create_readonly_node and metadata.get('no-write', False) and name not in children:"),
    dict(name="c16-metadatasetter-does-not-diminish", prop="C16", file="dirnode.py",
         old="        metadata = update_metadata(children[name][1].copy(), self.metadata, now)\n"
             "        if self.create_readonly_node and metadata.get('no-write', False):",
         new="        metadata = update_metadata(children[name][1].copy(), self.metadata, now)\n"
             "        if False:"),
    # twins of seeded C16-7: the read-only view of a keyed write node keeps a stronger secret in its state
    dict(name="c16-readonly-view-keeps-privkey", prop="C16", file="mutable/filenode.py",
         old="        ro.init_from_cap(self._uri.get_readonly())\n        return ro",
         new="        ro.init_from_cap(self._uri.get_readonly())\n        ro._privkey = self._privkey\n        return ro"),
    dict(name="c16-readonly-view-remembers-parent-node", prop="C16", file="mutable/filenode.py",
         old="        ro.init_from_cap(self._uri.get_readonly())\n        return ro",
         new="        ro.init_from_cap(self._uri.get_readonly())\n        ro._downloader_hints = {'origin': self._uri}\n        return ro"),
]
