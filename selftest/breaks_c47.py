"""Planted breaks for C47 (a successful mutable publish is recoverable).

NOTE: on the tree as of this writing C47 may already report the genuine key
`update-retried-after-uncoordinated-write-error-loses-the-written-data`; judge a break as caught only when
one of the success-* / published-version-* / acknowledged-share-* / no-error-reported-* keys appears.
"""
BREAKS = []


def brk(name, file, old, new, note=""):
    BREAKS.append(dict(name=name, prop="C47", file=file, old=old, new=new, note=note))


brk("c47-wrote-false-ignored", "mutable/publish.py",
    "        if not wrote:\n            # TODO: there are two possibilities.",
    "        if False:\n            # TODO: there are two possibilities.",
    "_got_write_answer treats a refused write (test vector mismatch) as placed")
brk("c47-done-without-k", "mutable/publish.py",
    "        if num_shnums < self.required_shares or self.surprised:\n            return self._failure()",
    "        if self.surprised:\n            return self._failure()",
    "publish declares success however few writers are left")
brk("c47-k-minus-one-enough", "mutable/publish.py",
    "        if num_shnums < self.required_shares or self.surprised:\n            return self._failure()",
    "        if num_shnums < self.required_shares - 1 or self.surprised:\n            return self._failure()",
    "k-1 share numbers are enough for success")
brk("c47-surprise-dropped", "mutable/publish.py",
    "        if surprised:\n            self.log(\"they had shares %s that we didn't know about\" %",
    "        if False:\n            self.log(\"they had shares %s that we didn't know about\" %",
    "shares of another version seen in a write answer no longer fail the publish")
brk("c47-error-counted-as-success", "mutable/publish.py",
    "        self._last_failure = f\n        self.writers.discard(writer.shnum, writer)\n",
    "        self._last_failure = f\n",
    "a writer whose server errored or disconnected still counts towards k")
brk("c47-surprised-flag-not-checked", "mutable/publish.py",
    "        if num_shnums < self.required_shares or self.surprised:\n            return self._failure()",
    "        if num_shnums < self.required_shares:\n            return self._failure()",
    "the surprised flag (refused write / unexpected share) is never consulted")
brk("c47-writers-counted-not-shnums", "mutable/publish.py",
    "        num_shnums = len(self.writers)\n",
    "        num_shnums = sum(len(ws) for ws in self.writers.values()) + len(self.bad_servers) + (1 if self._last_failure else 0)\n",
    "after a failure one more share number than really placed is counted")
# Documentation (not in BREAKS):
#  * layout.py SDMFSlotWriteProxy.finish_publishing sending no test vector: another writer's version is clobbered
#    silently, but every write is acknowledged and nothing surprising is read back on foreign share numbers, so the
#    C47 statement still holds - that is a C12 break (concurrent writers detected).
