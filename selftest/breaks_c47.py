"""Planted breaks for C47 (a successful mutable publish is recoverable).

The genuine finding C47 reported (SDMF update retried after an UncoordinatedWriteError dropped the new data) is
repaired in /repo (8204975); on the current tree the check exits 0 and these breaks are judged directly.
"""
BREAKS = []


def brk(name, file, old, new, note=""):
    BREAKS.append(dict(name=name, prop="C47", file=file, old=old, new=new, note=note))


brk("c47-wrote-false-ignored", "mutable/publish.py",
    "        if not wrote:\n            # TODO: there are two possibilities.",
    "        if False:\n            # TODO: there are two possibilities.",
    "_got_write_answer treats a refused write (test vector mismatch) as placed")
brk("c47-done-without-k", "mutable/publish.py",
    "        if num_shnums < self.required_shares or self.surprised:\n            return self._failure()",
    "        if self.surprised:\n            return self._failure()",
    "publish declares success however few writers are left")
brk("c47-k-minus-one-enough", "mutable/publish.py",
    "        if num_shnums < self.required_shares or self.surprised:\n            return self._failure()",
    "        if num_shnums < self.required_shares - 1 or self.surprised:\n            return self._failure()",
    "k-1 share numbers are enough for success")
brk("c47-surprise-dropped", "mutable/publish.py",
    "        if surprised:\n            self.log(\"they had shares %s that we didn't know about\" %",
    "        if False:\n            self.log(\"they had shares %s that we didn't know about\" %",
    "shares of another version seen in a write answer no longer fail the publish")
brk("c47-error-counted-as-success", "mutable/publish.py",
    "        self._last_failure = f\n        self.writers.discard(writer.shnum, writer)\n",
    "        self._last_failure = f\n",
    "a writer whose server errored or disconnected still counts towards k")
brk("c47-surprised-flag-not-checked", "mutable/publish.py",
    "        if num_shnums < self.required_shares or self.surprised:\n            return self._failure()",
    "        if num_shnums < self.required_shares:\n            return self._failure()",
    "the surprised flag (refused write / unexpected share) is never consulted")
brk("c47-writers-counted-not-shnums", "mutable/publish.py",
    "        num_shnums = len(self.writers)\n",
    "        num_shnums = sum(len(ws) for ws in self.writers.values()) + len(self.bad_servers) + (1 if self._last_failure else 0)\n",
    "after a failure one more share number than really placed is counted")
brk("c47-must-not-exist-vector-lost", "storage_client.py",
    "                [(start, length, b\"eq\", data) for (start, length, data) in value[0]],",
    "                [(start, len(data), b\"eq\", data) for (start, length, data) in value[0]],",
    "the 'share must not exist yet' test vector (0, 1, b'') goes out as a zero-length read: a homeless share is written "
    "over a foreign share of that number (seeded C47-5)")
brk("c47-sdmf-no-test-vector", "mutable/layout.py",
    "        tw_vectors = {}\n        tw_vectors[self.shnum] = (self._testvs, datavs, None)\n        return self._storage_server.slot_testv_and_readv_and_writev(\n            self._storage_index,\n            self._secrets,\n            tw_vectors,\n            # TODO is it useful to read something?",
    "        tw_vectors = {}\n        tw_vectors[self.shnum] = ([], datavs, None)\n        return self._storage_server.slot_testv_and_readv_and_writev(\n            self._storage_index,\n            self._secrets,\n            tw_vectors,\n            # TODO is it useful to read something?",
    "SDMF writes carry no test vector: another writer's version on the written share number is replaced and success reported")
# the defects repaired by fix: commits 22f500d and 8c22511, re-planted
brk("c47-replant-update-uses-node-k-n", "mutable/publish.py",
    "        self.required_shares = version[5] # verinfo[5] == k\n        self.total_shares = version[6] # verinfo[6] == N\n",
    "        self.required_shares = self._node.get_required_shares()\n        self.total_shares = self._node.get_total_shares()\n",
    "in-place update encodes with the writer client's default k/N instead of the file's")
brk("c47-replant-update-writes-other-version-shares", "mutable/publish.py",
    "                         if verinfo == version])",
    "                         if True])",
    "in-place update also writes into copies that hold another version")
brk("c47-surviving-writers-counted", "mutable/publish.py",
    "        num_shnums = len(self.writers)\n",
    "        num_shnums = sum([len(ws) for ws in self.writers.values()])\n",
    "surviving writers are counted instead of distinct share numbers (= seeded C47-7)")
